"""C13 -- trace sets: bases are the textbook polynomials and fit/evaluate are consistent."""

import ast

from .. import AnalysisError
from ..astutil import src, call_name, dotted, walk_local, try_fold, ancestors
from ..fn import FA
from ..loader import Func

META = {
    'property': 'C13',
    'title': 'Trace sets: bases are the textbook polynomials and fit/evaluate are consistent',
    'technique': 'registry agreement over resolved callees, def-use check of the normalised abscissa on the fit and the evaluate '
                 'side, last-writer / post-dominance of the fixed coefficients, weight dataflow, freshness of basis arrays',
    'explanation': (
        'Decided (pydl/pydlutils/trace.py, pydl/goddard/math.py, pydl/pydlutils/bspline.py): C13.REGISTRY - func_fit.function_map, '
        'TraceSet._func_map and the funcname dispatch of bspline.action map every common name to the same resolved function and every '
        'name TraceSet accepts is accepted by func_fit; C13.XNORM - in TraceSet.__init__ (fit) and TraceSet.xy (evaluate) the abscissa '
        'handed to the basis is self.xnorm(x, jump) and the jump flag is true exactly when xjumplo was supplied; C13.FIXED-LAST - in '
        'func_fit the prescribed values are written into the fixed coefficients after the solve as the last write to the result, and '
        'the right-hand side subtracts the basis times inputans masked by the complement of ia; C13.WEIGHTS - normal matrix and '
        'right-hand side are both formed with invvar itself (not a 0/1 mask); C13.YFIT-ALL - the basis and the fitted model are evaluated at every abscissa, masked ones included, and the normal matrix is solved as formed; C13.GRID - TraceSet.xy without xpos builds nx = '
        'int(xmax - xmin + 1) positions in unit steps offset by xmin; C13.BASIS-FRESH - func_fit scales the basis array in place, so '
        'every basis function returns a freshly allocated array (no memo decorator, no module-level cache). C13.FIT-ONCE - the fit/reject loop of TraceSet.__init__ holds on entry for maxiter = 0 (loop test folded on its initial values); C13.FLOAT-BASIS - the Legendre basis array is floating for every abscissa dtype. C13.FLOAT-OUT - the coefficient, fit and evaluation arrays of a TraceSet are not allocated in the dtype of the pixel positions (func_fit itself asserts that its arrays share the dtype of x, and is left alone); C13.JUMP-COND - inside xnorm the jump correction is applied under the jump flag alone (no further condition on the positions); C13.INMASK-WEIGHT - the weights TraceSet.__init__ hands to func_fit are, on every reaching definition and every pass of the fit loop, masked by the invvar and the inmask of the caller (must-analysis; the mask returned by djs_reject carries only what its inmask argument carries); C13.BASIS-EACH - TraceSet.xy recomputes the normalised abscissa and the basis for every trace unconditionally; NOT decided: that the '
        'bases equal the textbook polynomials (delegated to scipy; numerical), least-squares optimality, exact recovery.'),
    'floors': {'C13.JUMP-COND': 1, 'C13.INMASK-WEIGHT': 1, 'C13.BASIS-EACH': 1, 'C13.FLOAT-OUT': 2, 'C13.FIT-ONCE': 1, 'C13.FLOAT-BASIS': 1, 'C13.REGISTRY': 3, 'C13.XNORM': 4, 'C13.FIXED-LAST': 3, 'C13.WEIGHTS': 3, 'C13.GRID': 2, 'C13.BASIS-FRESH': 4, 'C13.YFIT-ALL': 3},
}

TRACE = 'pydl/pydlutils/trace.py'
BSPLINE = 'pydl/pydlutils/bspline.py'
GMATH = 'pydl/goddard/math.py'


def dict_of_names(d):
    return {k.value: v for k, v in zip(d.keys, d.values) if isinstance(k, ast.Constant) and isinstance(v, ast.Name)}


def check_registry(ctx, repo):
    m = repo.module(TRACE)
    f = repo.func(TRACE, 'func_fit')
    ctx.cover(f)
    fmap = None
    for n in walk_local(f.node):
        if isinstance(n, ast.Dict) and len(n.keys) >= 3 and all(isinstance(v, ast.Name) for v in n.values):
            fmap = dict_of_names(n)
    if fmap is None:
        # the table as a module-level constant the function reads
        for n in walk_local(f.node):
            if isinstance(n, ast.Name) and isinstance(n.ctx, ast.Load) and n.id in m.assigns and n.id not in f.params:
                d = m.assigns[n.id]
                if isinstance(d, ast.Dict) and len(d.keys) >= 3 and all(isinstance(v, ast.Name) for v in d.values) and \
                        not any(isinstance(x, ast.Name) and x.id == n.id and isinstance(x.ctx, ast.Store) for x in walk_local(f.node)):
                    fmap = dict_of_names(d)
    ctx.need(fmap, 'func_fit: function_map not found')
    cls = repo.cls(TRACE, 'TraceSet')
    tmap = None
    for st in cls.body:
        if isinstance(st, ast.Assign) and isinstance(st.value, ast.Dict) and src(st.targets[0]) == '_func_map':
            tmap = dict_of_names(st.value)
    ctx.need(tmap, 'TraceSet._func_map not found')
    g = repo.func(BSPLINE, 'bspline.action')
    ctx.cover(g)
    bm = repo.module(BSPLINE)
    bmap = {}
    for n in walk_local(g.node):
        if isinstance(n, ast.If) and isinstance(n.test, ast.Compare) and src(n.test.left) == 'self.funcname' and isinstance(n.test.comparators[0], ast.Constant):
            calls = [c for st in n.body for c in ast.walk(st) if isinstance(c, ast.Call) and isinstance(c.func, ast.Name)
                     and c.func.id.startswith('f')]
            if calls:
                bmap[n.test.comparators[0].value] = calls[0].func

    def res(module, name_node):
        r = repo.resolve_symbol(module, name_node.id)
        return '%s:%s' % (r.rel, r.qualname) if isinstance(r, Func) else None
    R1 = {k: res(m, v) for k, v in fmap.items()}
    R2 = {k: res(m, v) for k, v in tmap.items()}
    R3 = {k: res(bm, v) for k, v in bmap.items()}
    ctx.check('C13.REGISTRY', all(R1.values()) and all(R2.values()) and all(R3.values()), f, f.node,
              'every registry entry resolves to a function of the package (%d + %d + %d entries)' % (len(R1), len(R2), len(R3)),
              msg='a basis registry entry does not resolve to a package function: %s' % [k for d in (R1, R2, R3) for k, v in d.items() if not v],
              construct='registry resolution')
    bad = [(k, R1.get(k), R2[k]) for k in R2 if R1.get(k) != R2[k]]
    ctx.check('C13.REGISTRY', not bad, f, f.node, 'TraceSet._func_map agrees with func_fit.function_map on %s' % sorted(R2),
              msg='fit and evaluate use different basis functions for %s' % bad, construct='TraceSet vs func_fit registry: %s' % bad)
    bad3 = [(k, R1.get(k), R3[k]) for k in R3 if k in R1 and R1[k] != R3[k]]
    ctx.check('C13.REGISTRY', not bad3 and len(R3) >= 2, g, g.node, 'bspline.action dispatches %s to the same functions' % sorted(R3),
              msg='bspline.action and func_fit disagree on %s' % bad3, construct='bspline vs func_fit registry: %s' % bad3)
    return set(R1.values()) | set(R2.values())


def check_xnorm(ctx, repo):
    for q, basis_via in (('TraceSet.__init__', 'func_fit'), ('TraceSet.xy', '_func_map')):
        f = repo.func(TRACE, q)
        fa = FA(f)
        ctx.cover(f)
        calls = []
        for c in walk_local(f.node):
            if isinstance(c, ast.Call):
                if basis_via == 'func_fit' and call_name(c) == 'func_fit':
                    calls.append(c)
                elif basis_via == '_func_map' and isinstance(c.func, ast.Subscript) and '_func_map' in src(c.func.value):
                    calls.append(c)
        ctx.need(calls, '%s: basis call not found' % q)
        for c in calls:
            a0 = c.args[0]
            d = fa.deep(a0)
            ok = isinstance(d, ast.Call) and isinstance(d.func, ast.Attribute) and d.func.attr == 'xnorm' and src(d.func.value) == 'self' \
                and 'xpos[iTrace, :]' in src(d.args[0])
            ctx.check('C13.XNORM', ok, f, c, '%s: the abscissa handed to the basis is self.xnorm(xpos[iTrace, :], jump)' % q,
                      msg='%s: the basis receives `%s`, not the normalised abscissa self.xnorm(...): fit and evaluation would use different '
                          'abscissae' % (q, src(d)[:60]), construct='%s basis abscissa %s' % (q, src(d)[:60]))
            if ok:
                j = d.args[1]
                if q == 'TraceSet.__init__':
                    ds = sorted((src(v), [src(a.test) for a in ancestors(dd) if isinstance(a, ast.If)]) for dd, v in fa.defs(j) if v is not None)
                    okj = ds == [('False', []), ('True', ["'xjumplo' in kwargs"])] or \
                        [x[0] for x in ds] == ['False', 'True'] and any("'xjumplo' in kwargs" in y for x in ds for y in x[1])
                    ctx.check('C13.XNORM', okj, f, j, 'fit side: jump is True exactly when xjumplo was supplied', msg='fit-side jump flag is %s' % ds, construct='fit jump flag')
                else:
                    dj = fa.deep(j)
                    okj = src(dj) == 'self.has_jump and (not ignore_jump)'
                    ctx.check('C13.XNORM', okj, f, j, 'evaluate side: jump = self.has_jump and not ignore_jump', msg='evaluate-side jump flag is %s' % src(dj), construct='evaluate jump flag')
    hj = repo.func(TRACE, 'TraceSet.has_jump')
    rets = [r for r in walk_local(hj.node) if isinstance(r, ast.Return)]
    ctx.check('C13.XNORM', len(rets) == 1 and src(rets[0].value) == 'self.xjumplo is not None', hj, hj.node, 'has_jump is `xjumplo is not None`',
              msg='has_jump changed: %s' % (src(rets[0].value) if rets else ''), construct='has_jump')


class _FitRoles:
    """The variables of func_fit by what they hold (not by their names): res / yfit (the returned pair), the basis array, the rows of
    the basis that are solved for, the data minus the fixed part of the model.  Expressions are compared in closed form: every
    single-definition temporary is expanded down to these roles and the parameters, then canonicalised."""

    def __init__(self, ctx, f):
        from ..fn import expand
        from ..normal import canon_key
        self.f, self.fa = f, FA(f)
        fa = self.fa
        P = f.params
        rets = [r for r in walk_local(f.node) if isinstance(r, ast.Return) and r.value is not None]
        ctx.need(rets and all(isinstance(r.value, ast.Tuple) and len(r.value.elts) == 2 and all(isinstance(e, ast.Name) for e in r.value.elts) for r in rets)
                 and len({src(r.value) for r in rets}) == 1, 'func_fit: the returned pair (coefficients, fit) not found')
        self.res, self.yfit = (e.id for e in rets[0].value.elts)
        self.basis_stmt = None
        for st in walk_local(f.node):
            if isinstance(st, ast.Assign) and len(st.targets) == 1 and isinstance(st.targets[0], ast.Name) and isinstance(st.value, ast.Call):
                fn_ = expand(st.value.func, fa, 3)
                if isinstance(fn_, ast.Subscript) and any(isinstance(x, ast.Name) and x.id == 'function_name' for x in ast.walk(fn_.slice)):
                    self.basis_stmt = st
        ctx.need(self.basis_stmt is not None, 'func_fit: the call of the basis function chosen by function_name not found')
        self.leg = self.basis_stmt.targets[0].id
        self.final = self.ysub = None
        for st in walk_local(f.node):
            if isinstance(st, ast.Assign) and len(st.targets) == 1 and isinstance(st.targets[0], ast.Name):
                v = st.value
                if isinstance(v, ast.Subscript) and isinstance(v.value, ast.Name) and v.value.id == self.leg and isinstance(v.slice, ast.Tuple):
                    self.final = st.targets[0].id
                if isinstance(v, ast.BinOp) and isinstance(v.op, ast.Sub) and isinstance(v.left, ast.Name) and v.left.id == P[1] \
                        and any(isinstance(x, ast.Name) and x.id == 'inputans' for x in ast.walk(expand(v.right, fa, 4, calls=True))):
                    self.ysub = st.targets[0].id
        ctx.need(self.final and self.ysub, 'func_fit: the rows of the basis that are solved for / the data minus the fixed part not found')
        self.names = {self.res: 'res', self.yfit: 'yfit', self.leg: 'legarr', self.final: 'finalarr', self.ysub: 'ysub'}
        self._expand, self._key = expand, canon_key

    def key(self, e):
        x = self._expand(e, self.fa, 12, calls=True, stop=tuple(self.names))
        x = ast.parse(src(x), mode='eval').body
        for n in ast.walk(x):
            if isinstance(n, ast.Name) and n.id in self.names:
                n.id = self.names[n.id]
        return self._key(x)

    def ref(self, text):
        return self._key(ast.parse(text, mode='eval').body)

    def stores(self, role):
        nm = [k for k, v in self.names.items() if v == role][0]
        out = []
        for st in walk_local(self.f.node):
            for t in (st.targets if isinstance(st, ast.Assign) else [st.target] if isinstance(st, ast.AugAssign) else []):
                b = t
                while isinstance(b, ast.Subscript):
                    b = b.value
                if isinstance(b, ast.Name) and b.id == nm:
                    out.append((st, t))
        return out


NGOOD = 'len((invvar > 0).nonzero()[0])'
NCFIT = 'min(%s, ncoeff)' % NGOOD
NONFIX = 'ia[:%s].nonzero()[0]' % NCFIT
FIXED = '(~ia[:%s]).nonzero()[0]' % NCFIT


def check_func_fit(ctx, repo):
    f = repo.func(TRACE, 'func_fit')
    R = _FitRoles(ctx, f)
    fixed_k, nonfix_k = R.ref(FIXED), R.ref(NONFIX)
    # FIXED-LAST
    writes = [(st, t) for st, t in R.stores('res') if isinstance(t, ast.Subscript)]
    by_index = {}
    for st, t in writes:
        by_index.setdefault(R.key(t.slice), []).append(st)
    st_fixed = by_index.get(fixed_k, [])
    solves = by_index.get(nonfix_k, [])
    ok = len(st_fixed) == 1 and isinstance(st_fixed[0], ast.Assign) and R.key(st_fixed[0].value) == R.ref('inputans[%s]' % FIXED) and bool(solves) \
        and all(st_fixed[0].lineno > s.end_lineno for s in solves)
    later = [st for st, t in R.stores('res') if st_fixed and st.lineno > st_fixed[0].lineno]
    ctx.check('C13.FIXED-LAST', ok and not later, f, st_fixed[0] if st_fixed else f.node,
              'res[fixed] = inputans[fixed] follows the solve and is the last write to the coefficients',
              msg='the prescribed values of fixed coefficients are not written after the solve as the last write to the result', construct='fixed coefficients')
    # the positions called fixed are those where ia is False: every index of a coefficient store other than the solve and the single good point
    other = [k for k in by_index if k not in (fixed_k, nonfix_k, '0')]
    ctx.check('C13.FIXED-LAST', not other, f, by_index[other[0]][0] if other else (st_fixed[0] if st_fixed else f.node),
              'fixed = positions where ia is False among the fitted coefficients', msg='a coefficient store is indexed by `%s`' % (other[0] if other else '?'),
              construct='fixed index')
    yf = [st for st, t in R.stores('ysub') if isinstance(st, ast.Assign) and isinstance(st.value, ast.BinOp)]
    want = {R.ref('y - np.dot(legarr.T, inputans * (1 - ia))'), R.ref('y - np.dot(legarr.T, inputans * ~ia)')}
    ok = len(yf) == 1 and R.key(yf[0].value) in want
    ctx.check('C13.FIXED-LAST', ok, f, yf[0] if yf else f.node, 'the subtracted model is basis^T (inputans * (1 - ia)): only the fixed coefficients contribute',
              msg='the model subtracted from y is `%s`: values in the free slots of inputans are subtracted as well, biasing the fitted coefficients'
                  % (src(yf[0].value) if yf else '?'), construct='yfix ' + (src(yf[0].value) if yf else ''))
    # WEIGHTS: the solve stores, in closed form
    ones = 'np.ones((len(%s),), dtype=x.dtype)' % NONFIX
    alpha = 'np.dot(finalarr, (finalarr * np.outer(%s, invvar)).T)' % ones
    many = R.ref('np.linalg.solve(%s, np.dot(ysub * invvar, finalarr.T))' % alpha)
    single = R.ref('(ysub * invvar * finalarr).sum() / %s' % alpha)
    keys = [R.key(s.value) for s in solves if isinstance(s, ast.Assign)]
    a_ok = all(R.ref(alpha) in k for k in keys) and bool(keys)
    ctx.check('C13.WEIGHTS', a_ok, f, solves[0] if solves else f.node, 'normal matrix: basis . (basis * outer(1, invvar))^T',
              msg='the normal matrix is not the basis weighted by invvar itself: %s' % (src(solves[0].value)[:70] if solves else '?'), construct='normal matrix weights')
    ctx.check('C13.WEIGHTS', many in keys, f, solves[0] if solves else f.node, 'right-hand side: (ysub * invvar) . basis^T, solved against the normal matrix',
              msg='the right-hand side is not weighted by invvar itself', construct='rhs weights')
    ctx.check('C13.WEIGHTS', single in keys and len(keys) == 2, f, solves[-1] if solves else f.node,
              'one free coefficient: sum(ysub * invvar * basis) / normal matrix', msg='the one-parameter solution is not weighted by invvar itself',
              construct='rhs weights (one parameter)')


def check_yfit_all(ctx, repo):
    """The fitted model is evaluated at every abscissa (masked points included) and the normal matrix is used as formed."""
    f = repo.func(TRACE, 'func_fit')
    R = _FitRoles(ctx, f)
    b = R.basis_stmt
    ok = bool(b.value.args) and R.key(b.value.args[0]) == f.params[0]
    ctx.check('C13.YFIT-ALL', ok, f, b, 'the basis is evaluated at every abscissa x (zero-weight points included)',
              msg='the basis is evaluated at `%s`, not at all of x: the returned model is then missing at masked points'
                  % (src(b.value.args[0]) if b.value.args else '?'), construct='basis abscissae')
    finals = [(st, t) for st, t in R.stores('yfit') if any(isinstance(c, ast.Call) and call_name(c) in ('dot', 'matmul') for c in ast.walk(
        R._expand(st.value, R.fa, 6, calls=True, stop=tuple(R.names))))]
    ok = len(finals) == 1 and isinstance(finals[0][0], ast.Assign) and isinstance(finals[0][1], ast.Name) and \
        R.key(finals[0][0].value) == R.ref('np.dot(legarr.T, res[:%s])' % NCFIT)
    ctx.check('C13.YFIT-ALL', ok, f, finals[0][0] if finals else f.node, 'yfit = basis^T . coefficients for all points',
              msg='the fitted model is stored as `%s`: positions outside that selection keep 0, so evaluating the trace set there no longer returns the '
                  'fitted values' % (src(finals[0][0])[:70] if finals else '?'), construct='yfit assignment')
    # the normal matrix: any name whose closed form is basis . (weighted basis)^T must not be modified after it is formed
    mats = set()
    for st in walk_local(f.node):
        if isinstance(st, ast.Assign) and len(st.targets) == 1 and isinstance(st.targets[0], ast.Name) and isinstance(st.value, ast.Call) \
                and call_name(st.value) in ('dot', 'matmul') and 'finalarr' in R.key(st.value) and 'ysub' not in R.key(st.value):
            mats.add(st.targets[0].id)
    touched = [st for st in walk_local(f.node) if isinstance(st, (ast.Assign, ast.AugAssign)) and any(
        (isinstance(t, ast.Subscript) and isinstance(t.value, ast.Name) and t.value.id in mats) or
        (isinstance(st, ast.AugAssign) and isinstance(t, ast.Name) and t.id in mats) for t in (st.targets if isinstance(st, ast.Assign) else [st.target]))]
    ctx.check('C13.YFIT-ALL', not touched, f, touched[0] if touched else f.node, 'the normal matrix is solved as formed (no regularisation term)',
              msg='the normal matrix is modified after it is formed (`%s`): the solution is no longer the weighted least-squares optimum and depends on the '
                  'absolute scale of the weights' % (src(touched[0])[:70] if touched else ''), construct='alpha modified')


def check_grid(ctx, repo):
    f = repo.func(TRACE, 'TraceSet.xy')
    fa = FA(f)
    g = [st for st in walk_local(f.node) if isinstance(st, ast.Assign) and src(st.targets[0]) == 'xpos']
    ctx.need(g, 'TraceSet.xy: default grid not found')
    v = g[0].value
    s = src(v).replace(' ', '')
    ok = s in ('djs_laxisgen([self.nTrace,self.nx],iaxis=1)+self.xmin', 'np.tile(np.arange(self.nx)+self.xmin,(self.nTrace,1))',
               'np.tile(np.arange(self.nx),(self.nTrace,1))+self.xmin')
    under = isinstance(g[0]._parent, ast.If) and src(g[0]._parent.test) == 'xpos is None'
    ctx.check('C13.GRID', ok and under, f, g[0], 'default grid: integer pixel index along each trace plus xmin (unit steps)',
              msg='the default grid is `%s`: positions are not xmin, xmin+1, ... in unit steps (a non-integer xmax - xmin changes the spacing)' % src(v)[:80],
              construct='default grid ' + src(v)[:80])
    nx = repo.func(TRACE, 'TraceSet.nx')
    xr = repo.func(TRACE, 'TraceSet.xRange')
    r1 = [r for r in walk_local(nx.node) if isinstance(r, ast.Return)]
    r2 = [r for r in walk_local(xr.node) if isinstance(r, ast.Return)]
    ok = len(r1) == 1 and src(r1[0].value) == 'int(self.xRange + 1)' and len(r2) == 1 and src(r2[0].value) == 'self.xmax - self.xmin'
    ctx.check('C13.GRID', ok, nx, nx.node, 'nx = int(xmax - xmin + 1)', msg='nx / xRange changed: %s / %s' % (src(r1[0].value) if r1 else '', src(r2[0].value) if r2 else ''), construct='nx')


def check_basis_fresh(ctx, repo, resolved):
    f = repo.func(TRACE, 'func_fit')
    inplace = [st for st in walk_local(f.node) if isinstance(st, ast.AugAssign) and src(st.target) == 'legarr']
    for key in sorted(x for x in resolved if x):
        rel, q = key.split(':')
        g = repo.func(rel, q)
        ctx.cover(g)
        decos = [src(d) for d in g.node.decorator_list if any(w in src(d) for w in ('cache', 'memo'))]
        mod = g.module
        mod_names = {n for n, v in mod.assigns.items()} | {t.id for st in mod.tree.body if isinstance(st, ast.Assign) for t in st.targets if isinstance(t, ast.Name)}
        shared = []
        for n in walk_local(g.node):
            if isinstance(n, ast.Global):
                shared.append('global ' + ','.join(n.names))
            if isinstance(n, ast.Subscript) and isinstance(n.value, ast.Name) and n.value.id in mod_names:
                shared.append(src(n)[:40])
            if isinstance(n, ast.Call) and isinstance(n.func, ast.Attribute) and isinstance(n.func.value, ast.Name) and n.func.value.id in mod_names \
                    and n.func.value.id not in ('np',) and n.func.value.id not in mod.imports:
                shared.append(src(n)[:40])
        ctx.check('C13.BASIS-FRESH', not decos and not shared, g, g.node,
                  '%s returns a freshly built array (no memo decorator, no module-level cache)%s' % (q, '; func_fit scales it in place' if inplace else ''),
                  msg='%s keeps or returns basis arrays through shared state (%s) while func_fit modifies the returned array in place (`%s`): a later '
                      'evaluation on the same abscissae returns a corrupted basis' % (q, (decos + shared)[:3], src(inplace[0]) if inplace else 'legarr *= ...'),
                  construct='%s shares its result: %s' % (q, (decos + shared)[:2]))


FLOATS = {'float64', 'float32', 'float', 'float_', 'double', 'longdouble', 'd', 'f8', 'f4', 'f'}


def _floating_dtype(e, fa, depth=0):
    """True when the dtype expression is floating whatever the abscissa's type is."""
    if isinstance(e, ast.Constant):
        return e.value in FLOATS
    d = dotted(e)
    if d and d.split('.')[-1] in FLOATS:
        return True
    if isinstance(e, ast.Call) and call_name(e) in ('result_type', 'promote_types', 'find_common_type'):
        return any(_floating_dtype(a, fa, depth + 1) for a in e.args)
    if isinstance(e, ast.Name) and depth < 4:
        ds = fa.defs(e)
        return bool(ds) and all(v is not None and _floating_dtype(v, fa, depth + 1) for d_, v in ds)
    return False


def check_float_basis(ctx, repo, resolved):
    """C13.FLOAT-BASIS: the array that receives the polynomial values is floating whatever the abscissa's dtype: allocated with an
    integer abscissa's dtype, every non-integral value (P2(0) = -1/2) is truncated on assignment."""
    from ..fn import FA
    for key in sorted(x for x in resolved if x):
        rel, q = key.split(':')
        g = repo.func(rel, q)
        ga = FA(g)
        allocs = [c for c in walk_local(g.node) if isinstance(c, ast.Call) and call_name(c) in ('ones', 'zeros', 'empty', 'full')
                  and any(k.arg == 'dtype' for k in c.keywords)]
        ctx.need(allocs, '%s: allocation of the basis array not found' % q)
        # Chebyshev polynomials and monomials have integer coefficients: integer abscissae give exact integer values.  Legendre
        # polynomials do not (P2 = (3x^2 - 1)/2), so only a basis filled from scipy's legendre() needs a floating array.
        if not any(isinstance(c, ast.Call) and call_name(c) == 'legendre' for c in walk_local(g.node)):
            continue
        for c in allocs:
            dt = [k.value for k in c.keywords if k.arg == 'dtype'][0]
            ctx.check('C13.FLOAT-BASIS', _floating_dtype(dt, ga), g, c, '%s: the basis array is floating for every abscissa type (dtype=%s)' % (q, src(dt)),
                      msg='%s allocates the basis with the abscissa\'s own dtype (`%s`): for an integer array such as [-1, 0, 1] the polynomial values '
                          'are truncated to integers (P2(0) becomes 0)' % (q, src(dt)), construct='%s basis dtype %s' % (q, src(dt)))


def check_fit_once(ctx, repo):
    """C13.FIT-ONCE: the fit / reject loop of TraceSet.__init__ runs at least once for every maxiter >= 0 (maxiter = 0 means
    'fit, no rejection'); evaluated by folding the loop test on the initial values of its variables with maxiter = 0."""
    from ..astutil import fold, NoFold
    f = repo.func(TRACE, 'TraceSet.__init__')
    fa = FA(f)
    loops = [n for n in walk_local(f.node) if isinstance(n, ast.While) and any(isinstance(c, ast.Call) and call_name(c) == 'func_fit' for c in walk_local(n))]
    counted = [n for n in walk_local(f.node) if isinstance(n, ast.For) and any(isinstance(c, ast.Call) and call_name(c) == 'func_fit' for c in n.body for c in ast.walk(c))
               and isinstance(n.iter, ast.Call) and call_name(n.iter) == 'range' and any(isinstance(x, ast.Name) and x.id == 'maxiter' for x in ast.walk(n.iter))]
    ctx.need(loops or counted, 'TraceSet.__init__: fit loop not found')
    for lp in counted:
        # for _ in range([start,] stop): the number of passes for maxiter = 0
        a = lp.iter.args
        try:
            lo = fold(a[0], env={'maxiter': 0}) if len(a) >= 2 else 0
            hi = fold(a[1] if len(a) >= 2 else a[0], env={'maxiter': 0})
            step = fold(a[2], env={'maxiter': 0}) if len(a) == 3 else 1
            first = len(range(lo, hi, step)) >= 1
        except (NoFold, TypeError, ValueError) as e:
            raise AnalysisError('C13: TraceSet.__init__: the pass count `%s` cannot be evaluated for maxiter = 0 (%s)' % (src(lp.iter), e))
        ctx.check('C13.FIT-ONCE', first, f, lp, 'with maxiter = 0 the loop over `%s` has a first pass: func_fit is called once' % src(lp.iter),
                  msg='with maxiter = 0 the loop over `%s` has no pass: func_fit is never called and every trace keeps all-zero coefficients' % src(lp.iter),
                  construct='fit loop skipped for maxiter=0: ' + src(lp.iter))
    for lp in loops:
        names = {x.id for x in ast.walk(lp.test) if isinstance(x, ast.Name)}
        env = {}
        for nm in names:
            if nm == 'maxiter':
                env[nm] = 0
                continue
            inits = [st for st in walk_local(f.node) if isinstance(st, ast.Assign) and src(st.targets[0]) == nm and st.lineno < lp.lineno
                     and not any(a is lp for a in ancestors(st))]
            if inits:
                try:
                    env[nm] = fold(inits[-1].value)
                except NoFold:
                    pass
        try:
            first = bool(fold(lp.test, env=env))
        except NoFold as e:
            raise AnalysisError('C13: TraceSet.__init__: the loop test `%s` cannot be evaluated on its initial values (%s)' % (src(lp.test), e))
        ctx.check('C13.FIT-ONCE', first, f, lp, 'with maxiter = 0 the loop test `%s` holds on entry (%s): func_fit is called once' % (src(lp.test), env),
                  msg='with maxiter = 0 the loop test `%s` is false on entry (%s): func_fit is never called and every trace keeps all-zero coefficients'
                      % (src(lp.test), env), construct='fit loop skipped for maxiter=0: ' + src(lp.test))


def check_basis_each(ctx, repo):
    """C13.BASIS-EACH: TraceSet.xy evaluates every trace on ITS OWN abscissae: inside the per-trace loop the normalised abscissa and the
    basis are recomputed unconditionally (a basis kept from the previous trace is only right when the whole row of positions agrees)."""
    f = repo.func(TRACE, 'TraceSet.xy')
    fa = FA(f)
    loops = [n for n in walk_local(f.node) if isinstance(n, ast.For) and any(isinstance(c, ast.Call) and call_name(c) == 'dot' for c in walk_local(n))]
    ctx.need(len(loops) == 1, 'TraceSet.xy: per-trace loop not found')
    lp = loops[0]
    from ..astutil import path_conditions
    calls = [c for c in walk_local(lp) if isinstance(c, ast.Call) and (call_name(c) == 'xnorm' or (isinstance(c.func, ast.Subscript) and '_func_map' in src(c.func)))]
    ctx.need(len(calls) >= 1, 'TraceSet.xy: xnorm / basis calls not found in the per-trace loop')
    for c in calls:
        conds = [t for t, pol in path_conditions(c) if any(t is x for x in ast.walk(lp))]
        ctx.check('C13.BASIS-EACH', not conds, f, c, 'every trace gets `%s` from its own positions (unconditionally, once per trace)' % src(c)[:50],
                  msg='TraceSet.xy computes `%s` only under `%s`: a trace whose positions differ from the previous one in the interior is evaluated with the '
                      'previous trace\'s basis' % (src(c)[:50], src(conds[0])[:60] if conds else ''), construct='basis reused across traces')


def check_inmask_weight(ctx, repo):
    """C13.INMASK-WEIGHT: the weights TraceSet.__init__ hands to func_fit are zero wherever the caller's invvar is zero AND wherever the
    caller's inmask is zero, on every pass of the fit / reject loop.  A must-analysis over reaching definitions: a value `carries` an
    input when it is that input, a row / cast / positivity test of a carrier, or a product (or &) with a carrier as a factor; a name
    carries what ALL its reaching definitions carry; an all-ones default carries everything; the mask returned by djs_reject carries
    what its inmask argument carries (and its outmask argument when sticky), nothing else - djs_reject does not AND with invvar."""
    f = repo.func(TRACE, 'TraceSet.__init__')
    fa = FA(f)
    ALL = frozenset(('invvar', 'inmask'))
    kw = f.node.args.kwarg.arg if f.node.args.kwarg else 'kwargs'

    class Unknown(Exception):
        pass

    def carry(e, seen):
        if isinstance(e, ast.Subscript) and isinstance(e.value, ast.Name) and e.value.id == kw and isinstance(e.slice, ast.Constant):
            return frozenset((e.slice.value,)) & ALL
        if isinstance(e, ast.Call) and isinstance(e.func, ast.Attribute) and isinstance(e.func.value, ast.Name) and e.func.value.id == kw \
                and e.func.attr == 'get' and e.args and isinstance(e.args[0], ast.Constant):
            k = frozenset((e.args[0].value,)) & ALL
            return k if len(e.args) < 2 else k & carry(e.args[1], seen) if k else frozenset()
        if isinstance(e, ast.Name):
            if e.id in f.params and fa.is_param(e):
                return frozenset((e.id,)) & ALL
            key = (e.id, getattr(e, 'lineno', 0), getattr(e, 'col_offset', 0))
            if key in seen:
                return ALL                  # greatest fixed point of a must-analysis
            seen = seen | {key}
            out = ALL
            ds = fa.defs(e)
            if not ds:
                return frozenset()
            for d, v in ds:
                if d is None:
                    continue
                if v is not None:
                    out &= carry(v, seen)
                    continue
                st = d
                if isinstance(st, ast.Assign) and isinstance(st.value, ast.Call) and call_name(st.value) == 'djs_reject' \
                        and isinstance(st.targets[0], ast.Tuple) and isinstance(st.targets[0].elts[0], ast.Name) and st.targets[0].elts[0].id == e.id:
                    c = st.value
                    got = frozenset()
                    for k in c.keywords:
                        if k.arg == 'inmask':
                            got |= carry(k.value, seen)
                        if k.arg == 'outmask' and any(k2.arg == 'sticky' and isinstance(k2.value, ast.Constant) and k2.value.value is True for k2 in c.keywords):
                            got |= carry(k.value, seen)
                    out &= got
                    continue
                if isinstance(st, (ast.For, ast.AugAssign)) or isinstance(st, ast.Assign):
                    raise Unknown('`%s` is bound by `%s`' % (e.id, src(st).split('\n')[0][:60]))
                raise Unknown('`%s` has a binding this rule cannot follow' % e.id)
            return out
        if isinstance(e, ast.BinOp) and isinstance(e.op, (ast.Mult, ast.BitAnd)):
            return carry(e.left, seen) | carry(e.right, seen)
        if isinstance(e, ast.BoolOp) and isinstance(e.op, ast.And):
            out = frozenset()
            for v in e.values:
                out |= carry(v, seen)
            return out
        if isinstance(e, ast.Subscript):
            return carry(e.value, seen)
        if isinstance(e, ast.Call) and isinstance(e.func, ast.Attribute) and e.func.attr in ('astype', 'copy', 'view') and not (
                isinstance(e.func.value, ast.Name) and e.func.value.id in ('np', 'numpy')):
            return carry(e.func.value, seen)
        if isinstance(e, ast.Call) and call_name(e) in ('ones', 'ones_like') and isinstance(e.func, ast.Attribute):
            return ALL                      # the default: nothing masked
        if isinstance(e, ast.Call) and call_name(e) in ('asarray', 'array', 'float64', 'logical_and', 'multiply') and e.args:
            out = frozenset()
            for a in (e.args if call_name(e) in ('logical_and', 'multiply') else e.args[:1]):
                out |= carry(a, seen)
            return out
        if isinstance(e, ast.Compare) and len(e.ops) == 1 and isinstance(e.ops[0], (ast.Gt, ast.NotEq)) and isinstance(e.comparators[0], ast.Constant) \
                and e.comparators[0].value == 0:
            return carry(e.left, seen)
        if isinstance(e, ast.IfExp):
            return carry(e.body, seen) & carry(e.orelse, seen)
        return frozenset()
    g = repo.func(TRACE, 'func_fit')
    n = 0
    for c in walk_local(f.node):
        if not (isinstance(c, ast.Call) and call_name(c) == 'func_fit'):
            continue
        bound = dict(zip(g.params, c.args))
        bound.update({k.arg: k.value for k in c.keywords if k.arg})
        w = bound.get('invvar')
        n += 1
        if w is None:
            ctx.check('C13.INMASK-WEIGHT', False, f, c, '', msg='TraceSet.__init__ fits without weights: neither invvar nor inmask of the caller reaches func_fit',
                      construct='func_fit without invvar')
            continue
        try:
            got = carry(w, frozenset())
        except Unknown as e:
            raise AnalysisError('C13: TraceSet.__init__: the weights handed to func_fit (`%s`) cannot be followed to invvar / inmask: %s' % (src(w)[:50], e))
        miss = sorted(ALL - got)
        ctx.check('C13.INMASK-WEIGHT', not miss, f, c, 'the weights handed to func_fit (`%s`) are zero wherever the caller\'s invvar or inmask is zero, on every pass' % src(w)[:50],
                  msg='the weights TraceSet.__init__ hands to func_fit (`%s`) are not masked by the caller\'s %s on every pass of the fit loop: points the caller '
                      'excluded take part in the fit' % (src(w)[:60], ' / '.join(miss)), construct='fit weights without ' + '/'.join(miss))
    ctx.need(n >= 1, 'TraceSet.__init__: call of func_fit not found')


def check_jump_cond(ctx, repo):
    """C13.JUMP-COND: inside xnorm the jump correction depends on the jump flag alone.  The correction is piecewise in x (zero below
    xjumplo, a ramp up to xjumphi, the full value beyond), so it has to be applied to every row of positions when the flag is set: a
    further condition on the positions (`and xinput.max() > self.xjumphi`) drops the ramp part for rows that end inside the jump, and fit
    and evaluation then disagree on such rows."""
    from ..astutil import path_conditions, clone
    from ..normal import canon_test
    f = repo.func(TRACE, 'TraceSet.xnorm')
    ctx.cover(f)
    flag = f.params[2] if len(f.params) > 2 else 'jump'
    uses = [st for st in walk_local(f.node) if isinstance(st, (ast.Assign, ast.AugAssign)) and any(
        isinstance(x, ast.Attribute) and x.attr == 'xjumpval' for x in ast.walk(st.value))]
    ctx.need(uses, 'TraceSet.xnorm: the jump correction (xjumpval) not found')
    for st in uses:
        conj = []
        for t, pol in path_conditions(st):
            e = canon_test(t if pol else ast.UnaryOp(op=ast.Not(), operand=clone(t)))
            conj += [src(x) for x in (e.values if isinstance(e, ast.BoolOp) and isinstance(e.op, ast.And) else [e])]
        extra = [c for c in conj if c != flag]
        ctx.check('C13.JUMP-COND', flag in conj and not extra, f, st, 'xnorm applies the jump correction exactly when `%s` is set' % flag,
                  msg='xnorm applies the jump correction only under %s: rows of positions for which the extra condition fails lose the (partial) jump, so '
                      'a trace evaluated on part of a row differs from the same trace evaluated on the whole row' % (conj or ['no condition']),
                  construct='jump correction under %s' % conj)


def run(ctx):
    check_jump_cond(ctx, ctx.repo)
    check_inmask_weight(ctx, ctx.repo)
    check_basis_each(ctx, ctx.repo)
    from .floatlib import check_float_alloc
    check_float_alloc(ctx, ctx.repo, 'C13.FLOAT-OUT', [(TRACE, 'TraceSet.__init__'), (TRACE, 'TraceSet.xy')],
                      'the coefficients and fitted values of traces given at integer pixel positions are truncated')
    check_fit_once(ctx, ctx.repo)
    resolved = check_registry(ctx, ctx.repo)
    check_xnorm(ctx, ctx.repo)
    check_func_fit(ctx, ctx.repo)
    check_yfit_all(ctx, ctx.repo)
    check_grid(ctx, ctx.repo)
    check_basis_fresh(ctx, ctx.repo, resolved)
    check_float_basis(ctx, ctx.repo, resolved)

"""C01 -- yanny: tables and header pairs written to a file read back unchanged.

Decided: the structural necessary conditions of the round trip -- writer/reader type tables agree,
unsupported types are refused by subscript, every emitted cell goes through protect(), protect()
quotes exactly the texts the tokenizer would split or drop, column order and key case agree, integer
cells are converted by int() on the token text."""

import ast

from .. import AnalysisError
from ..astutil import clone, src, call_name, dotted, walk_local, try_fold, ancestors, path_conditions
from ..fn import expand
from ..normal import canon_expr, canon_test
from ..fn import FA
from .. import rx
from .yannylib import YANNY, YannyClass, row_dispatch_tests

META = {
    'property': 'C01',
    'title': 'yanny: tables and header pairs written to a file read back unchanged',
    'technique': 'table extraction and composition check (writer o reader = identity), def-use flow of every emitted '
                 'cell through protect(), regex-AST query on the quoting predicate, call-graph entry check',
    'explanation': (
        'Decided (pydl/pydlutils/yanny.py): C01.TYPEMAP - the writer table (numpy code -> yanny type) in '
        'dtype_to_struct and the reader table (yanny type -> numpy code) in dtype compose to the identity on '
        '{i2,i4,i8,f4,f8}, the writer is injective, and the int/float type sets of convert partition the reader keys '
        'by numpy kind; C01.REFUSE - the type word of a non-string column is obtained only by subscripting the writer '
        'table (no .get default, no KeyError handler) and its keys are exactly the five supported codes, so unsigned, '
        '8-bit, bool, half, complex cannot be written under another name; C01.PROTECT-FLOW - every cell appended to a '
        'row in write/append is protect(e) or a brace-wrapped join of protect(x); C01.PROTECT-PRED - protect quotes '
        'when the text is empty, contains # or matches a whitespace regex (re.search, class covers blank and tab); '
        'C01.NO-MEMO - protect is not memoised by value equality (0.0 == -0.0); C01.COLORDER - the returned column '
        'list and the typedef lines iterate the same sequence; C01.STRWIDTH - type code, array length and string width of a column come from the same dtype level; C01.ZERO-ROW - the record arrays are filled in a way that also works for tables without rows; C01.CONT - the continuation-joining pattern of the reader consumes only the backslash, trailing blanks and the newline (nothing of the cells around it); C01.CASE - tables are registered and dispatched under '
        '.upper() keys; C01.INTCONV - integer cells are converted by int() directly on the token, floats by float(); '
        'C01.PAIRS - pairs() is all keys minus tables(), tables() is all symbols minus {struct, enum}; C01.ENUM-LABELS - the labels of an enum typedef are taken as the text between the commas, or by a pattern that admits letters, digits and underscores; C01.ENTRY - the '
        'Table entry points reach the file only through write_ndarray_to_yanny / yanny.__init__ and pass table.meta. '
        'NOT decided: that str(value) -> float()/int() is lossless for every value, that get_token/trailing_comment '
        'invert protect for every string, zero-row behaviour, header text equality, enum round trip.'),
    'floors': {'C01.TYPEMAP': 4, 'C01.REFUSE': 2, 'C01.PROTECT-FLOW': 4, 'C01.PROTECT-PRED': 3, 'C01.COLORDER': 1,
               'C01.CASE': 4, 'C01.INTCONV': 4, 'C01.PAIRS': 2, 'C01.ENUM-LABELS': 1, 'C01.ENTRY': 3, 'C01.NO-MEMO': 1, 'C01.STRWIDTH': 1, 'C01.CONT': 1, 'C01.ZERO-ROW': 1},
}

CANON = {'f': 'f4', 'd': 'f8', 'f4': 'f4', 'f8': 'f8', 'i2': 'i2', 'i4': 'i4', 'i8': 'i8', 'h': 'i2', 'i': 'i4', 'l': 'i8', 'q': 'i8',
         'float32': 'f4', 'float64': 'f8', 'int16': 'i2', 'int32': 'i4', 'int64': 'i8'}
SUPPORTED = {'i2', 'i4', 'i8', 'f4', 'f8'}


def const_dicts(fn):
    out = []
    for n in walk_local(fn):
        if isinstance(n, ast.Dict) and n.keys and all(isinstance(k, ast.Constant) and isinstance(k.value, str) for k in n.keys) \
                and all(isinstance(v, ast.Constant) and isinstance(v.value, str) for v in n.values):
            out.append((n, {k.value: v.value for k, v in zip(n.keys, n.values)}))
    return out


def const_set(e):
    """set([...]) / {...} / frozenset((...)) / tuple / list of string constants."""
    if isinstance(e, ast.Call) and call_name(e) in ('set', 'frozenset') and len(e.args) == 1:
        e = e.args[0]
    if isinstance(e, (ast.Set, ast.List, ast.Tuple)) and all(isinstance(x, ast.Constant) and isinstance(x.value, str) for x in e.elts):
        return {x.value for x in e.elts}
    return None


def is_protect_call(e):
    return isinstance(e, ast.Call) and call_name(e) == 'protect' and len(e.args) == 1


def protected_list(name, fa, depth, trusted):
    """The list bound to `name` holds only protected cells: every definition is an empty list, a display or a comprehension of
    protected cells, and every append to it in the function adds a protected cell."""
    ds = fa.defs(name)
    if not ds:
        return False
    for d, v in ds:
        if v is None:
            return False
        if isinstance(v, ast.Call) and call_name(v) == 'list' and not v.args:
            continue
        if isinstance(v, ast.List):
            if all(protected(x, fa, depth + 1, trusted) for x in v.elts):
                continue
            return False
        if isinstance(v, (ast.ListComp, ast.GeneratorExp)):
            if protected(v.elt, fa, depth + 1, trusted):
                continue
            return False
        return False
    for c in walk_local(fa.node):
        if isinstance(c, ast.Call) and isinstance(c.func, ast.Attribute) and isinstance(c.func.value, ast.Name) \
                and c.func.value.id == name.id:
            if c.func.attr == 'append' and len(c.args) == 1:
                if not protected(c.args[0], fa, depth + 1, trusted):
                    return False
            elif c.func.attr in ('extend', 'insert'):
                return False
        if isinstance(c, ast.AugAssign) and isinstance(c.target, ast.Name) and c.target.id == name.id:
            return False
    return True


def protected(e, fa, depth=0, trusted=frozenset()):
    """Every data leaf of the emitted text is wrapped in protect()."""
    if depth > 8:
        return False
    if isinstance(e, ast.Name) and e.id in trusted:
        return True
    if is_protect_call(e):
        return True
    if isinstance(e, ast.Constant) and isinstance(e.value, str):
        return True
    if isinstance(e, ast.BinOp) and isinstance(e.op, ast.Add):
        return protected(e.left, fa, depth + 1, trusted) and protected(e.right, fa, depth + 1, trusted)
    if isinstance(e, ast.Call) and call_name(e) == 'join' and isinstance(e.func, ast.Attribute) \
            and isinstance(e.func.value, ast.Constant) and len(e.args) == 1:
        a = e.args[0]
        if isinstance(a, (ast.ListComp, ast.GeneratorExp)):
            return protected(a.elt, fa, depth + 1, trusted)
        if isinstance(a, ast.Call) and call_name(a) == 'map' and len(a.args) == 2:
            return (dotted(a.args[0]) or '').endswith('protect')
        if isinstance(a, ast.Name):
            return protected_list(a, fa, depth + 1, trusted)
        return False
    if isinstance(e, ast.JoinedStr):
        return all(isinstance(v, ast.Constant) or (isinstance(v, ast.FormattedValue) and protected(v.value, fa, depth + 1, trusted))
                   for v in e.values)
    if isinstance(e, ast.Call) and call_name(e) == 'format' and isinstance(e.func, ast.Attribute) \
            and isinstance(e.func.value, ast.Constant):
        return all(protected(a, fa, depth + 1, trusted) for a in e.args) and not e.keywords
    if isinstance(e, ast.Name):
        ds = fa.defs(e)
        if not ds:
            return False
        return all(v is not None and protected(v, fa, depth + 1, trusted) for d, v in ds)
    if isinstance(e, ast.IfExp):
        return protected(e.body, fa, depth + 1, trusted) and protected(e.orelse, fa, depth + 1, trusted)
    return False


def convert_model(f, fa, cls=None):
    """How convert() turns tokens into numbers: [(type words, 'int' | 'float', elementwise?, converter applied to the token itself?, node)].
    Two spellings are read: membership tests on literal sets of type words guarding int()/float() calls, and a literal table from type
    words to the builtins int / float whose entry is called."""
    out = []
    # (A) int(x) / [int(v) for v in x] reached under `typ in {..}`; or caster(x) with `caster = int` bound under that test.  The set of
    #     type words is the membership test the call (or the binding of the caster) is reached under - as an enclosing if, an elif, or
    #     the fall-through after an early return; the set itself a display, set([...]), frozenset((...)), local or module constant.
    def word_set(e):
        v = fa.deep(e)
        s_ = const_set(v)
        if s_ is None and isinstance(v, ast.Name) and v.id in f.module.assigns and not any(
                isinstance(x, ast.Name) and x.id == v.id and isinstance(x.ctx, ast.Store) for x in walk_local(f.node)):
            s_ = const_set(f.module.assigns[v.id])
        return s_

    def governing_set(node):
        for t0, pol0 in path_conditions(node):
            t_, pol = t0, pol0
            while isinstance(t_, ast.UnaryOp) and isinstance(t_.op, ast.Not):
                t_, pol = t_.operand, not pol
            if isinstance(t_, ast.Compare) and len(t_.ops) == 1 and isinstance(t_.ops[0], (ast.In, ast.NotIn)) \
                    and pol == isinstance(t_.ops[0], ast.In):
                s_ = word_set(t_.comparators[0])            # resolved on the original nodes
                if s_ is not None:
                    return s_, t0
        return None, None
    for c in walk_local(f.node):
        if not (isinstance(c, ast.Call) and isinstance(c.func, ast.Name) and not c.keywords and len(c.args) == 1):
            continue
        arg = c.args[0]
        elementwise = any(isinstance(a, (ast.ListComp, ast.GeneratorExp)) for a in ancestors(c))
        direct = isinstance(arg, ast.Name)
        if c.func.id in ('int', 'float') and not any(d is not None for d, v in fa.defs(c.func)):
            s_, anchor = governing_set(c)
            if s_ is not None:
                out.append((s_, c.func.id, elementwise, direct, c, anchor))
            continue
        ds = fa.defs(c.func)
        if ds and all(d is not None and isinstance(v, ast.Name) and v.id in ('int', 'float') for d, v in ds):
            for d, v in ds:
                s_, anchor = governing_set(d)
                if s_ is None:
                    raise AnalysisError('C01: convert() binds its converter `%s = %s` outside a membership test on literal type words: not an idiom this '
                                        'checker can judge' % (c.func.id, v.id))
                out.append((s_, v.id, elementwise, direct, c, anchor))
    if out:
        return out
    # (B) table = {'short': int, ..., 'double': float};  table[typ](x)   -- the table a local or a class attribute, an entry fetched by
    #     subscript under a membership test or by .get() under a None test
    def conv_table(n):
        return isinstance(n, ast.Dict) and n.keys and all(isinstance(k, ast.Constant) and isinstance(k.value, str) for k in n.keys) \
            and all(isinstance(v, ast.Name) and v.id in ('int', 'float') for v in n.values)
    tables = [(n, getattr(n, '_parent', None)) for n in walk_local(f.node) if conv_table(n)]
    refs = []
    if cls is not None:
        for st in cls.body:
            if isinstance(st, ast.Assign) and len(st.targets) == 1 and isinstance(st.targets[0], ast.Name) and conv_table(st.value):
                used = [x for x in walk_local(f.node) if isinstance(x, ast.Attribute) and x.attr == st.targets[0].id and isinstance(x.value, ast.Name)
                        and x.value.id in ('self', 'cls', cls.name)]
                if used:
                    tables.append((st.value, st))
                    refs = [st.targets[0].id]
    if len(tables) != 1:
        return out
    tab, par = tables[0]
    tname = par.targets[0].id if isinstance(par, ast.Assign) and len(par.targets) == 1 and isinstance(par.targets[0], ast.Name) else None

    def is_table(e):
        if e is tab:
            return True
        if refs:
            return isinstance(e, ast.Attribute) and e.attr in refs and isinstance(e.value, ast.Name)
        return bool(tname) and isinstance(e, ast.Name) and e.id == tname

    def entry_kind(e, depth=0):
        """'sub' when e evaluates to table[<type word>], 'get' when to table.get(<type word>) (None for other words), else None."""
        if isinstance(e, ast.Subscript) and is_table(e.value):
            return 'sub'
        if isinstance(e, ast.Call) and isinstance(e.func, ast.Attribute) and e.func.attr == 'get' and is_table(e.func.value) \
                and (len(e.args) == 1 or (len(e.args) == 2 and isinstance(e.args[1], ast.Constant) and e.args[1].value is None)) and not e.keywords:
            return 'get'
        if isinstance(e, ast.Name) and depth < 3:
            ks = {entry_kind(v, depth + 1) if v is not None else None for d, v in fa.defs(e)}
            return ks.pop() if len(ks) == 1 else None
        return None
    for c in walk_local(f.node):
        kind_ = entry_kind(c.func) if isinstance(c, ast.Call) else None
        if kind_ is None:
            continue
        guarded = False
        for t0, pol0 in path_conditions(c):
            t_ = canon_test(t0 if pol0 else ast.UnaryOp(op=ast.Not(), operand=clone(t0)))
            if kind_ == 'sub' and isinstance(t_, ast.Compare) and len(t_.ops) == 1 and isinstance(t_.ops[0], ast.In) and is_table(t_.comparators[0]):
                guarded = True
            if kind_ == 'get' and isinstance(c.func, ast.Name):
                if isinstance(t_, ast.Compare) and len(t_.ops) == 1 and isinstance(t_.ops[0], ast.IsNot) and isinstance(t_.left, ast.Name) \
                        and t_.left.id == c.func.id and isinstance(t_.comparators[0], ast.Constant) and t_.comparators[0].value is None:
                    guarded = True
                if isinstance(t_, ast.Name) and t_.id == c.func.id:
                    guarded = True
        if not guarded:
            raise AnalysisError('C01: convert() calls an entry of its converter table without a membership / None test: not an idiom this checker can judge')
        arg = c.args[0] if c.args else None
        for conv in ('int', 'float'):
            s_ = {k.value for k, v in zip(tab.keys, tab.values) if v.id == conv}
            out.append((s_, conv, any(isinstance(a, (ast.ListComp, ast.GeneratorExp)) for a in ancestors(c)),
                        isinstance(arg, ast.Name) and len(c.args) == 1 and not c.keywords, c, c))
    return out


def check_typemap(ctx, yc):
    f_w = yc.method('dtype_to_struct')
    f_r = yc.method('dtype')
    f_c = yc.method('convert')
    ctx.cover(f_w, f_r, f_c)
    dw = const_dicts(f_w.node)
    dr = const_dicts(f_r.node)
    ctx.need(len(dw) == 1, 'dtype_to_struct: expected one literal type table, found %d' % len(dw))
    ctx.need(len(dr) == 1, 'dtype: expected one literal type table, found %d' % len(dr))
    wnode, writer = dw[0]
    rnode, reader = dr[0]
    bad = []
    for k, v in writer.items():
        back = reader.get(v)
        if back is None or CANON.get(back) != CANON.get(k, k):
            bad.append('%s -> %s -> %s' % (k, v, back))
    ctx.check('C01.TYPEMAP', not bad, f_w, wnode,
              'reader(writer(code)) == code for %s' % sorted(writer),
              msg='a column written with numpy code k is read back with another type: ' + '; '.join(bad),
              construct='writer table %s / reader table %s' % (sorted(writer.items()), sorted(reader.items())))
    ctx.check('C01.TYPEMAP', len(set(writer.values())) == len(writer), f_w, wnode,
              'writer table is injective (%d codes -> %d type words)' % (len(writer), len(set(writer.values()))),
              msg='two numpy codes are written under the same yanny type word', construct='writer table not injective')
    # convert(): int / float type sets
    ints = floats = None
    inode = fnode = None
    fa_c = FA(f_c)
    for s_, conv, elementwise, direct, cnode, anchor in convert_model(f_c, fa_c, yc.cls):
        if conv == 'int':
            ints, inode = (ints or set()) | s_, anchor
        else:
            floats, fnode = (floats or set()) | s_, anchor
    ctx.need(ints is not None and floats is not None, 'convert(): int / float type sets not found')
    want_i = {k for k, v in reader.items() if CANON.get(v, v).startswith('i')}
    want_f = {k for k, v in reader.items() if CANON.get(v, v).startswith('f')}
    ctx.check('C01.TYPEMAP', ints == want_i, f_c, inode, 'convert(): integer types %s = reader keys of numpy kind i' % sorted(ints),
              msg='convert() treats %s as integer types, the reader table says %s' % (sorted(ints), sorted(want_i)),
              construct='intTypes %s' % sorted(ints))
    ctx.check('C01.TYPEMAP', floats == want_f, f_c, fnode, 'convert(): float types %s = reader keys of numpy kind f' % sorted(floats),
              msg='convert() treats %s as float types, the reader table says %s' % (sorted(floats), sorted(want_f)),
              construct='floatTypes %s' % sorted(floats))
    # REFUSE
    keys = {CANON.get(k, k) for k in writer}
    ctx.check('C01.REFUSE', keys == SUPPORTED and all(k in SUPPORTED for k in writer), f_w, wnode,
              'writer keys are exactly the five supported codes %s' % sorted(writer),
              msg='writer table has keys %s; only i2,i4,i8,f4,f8 are supported scalar types (anything else would be written '
                  'under another type name)' % sorted(writer), construct='writer keys %s' % sorted(writer))
    # how the table is used
    name = None
    p = getattr(wnode, '_parent', None)
    if isinstance(p, ast.Assign) and isinstance(p.targets[0], ast.Name):
        name = p.targets[0].id
    ctx.need(name is not None, 'dtype_to_struct: writer table is not bound to a name')
    uses = [n for n in walk_local(f_w.node) if isinstance(n, ast.Name) and n.id == name and isinstance(n.ctx, ast.Load)]
    ctx.need(uses, 'dtype_to_struct: writer table is never used')
    for u in uses:
        par = getattr(u, '_parent', None)
        ok = isinstance(par, ast.Subscript) and par.value is u and isinstance(par.ctx, ast.Load)
        swallowed = False
        for a in ancestors(u):
            if isinstance(a, ast.Try):
                inbody = any(u in list(ast.walk(b)) for b in a.body)
                if inbody:
                    for h in a.handlers:
                        hn = (dotted(h.type) or '') if h.type is not None else ''
                        if h.type is None or hn.split('.')[-1] in ('KeyError', 'LookupError', 'Exception', 'BaseException'):
                            if not any(isinstance(x, ast.Raise) for x in ast.walk(h)):
                                swallowed = True
        ctx.check('C01.REFUSE', ok and not swallowed, f_w, u,
                  'type word obtained by subscripting the writer table (KeyError for unsupported types propagates)',
                  msg='the writer table is consulted by %s%s: an unsupported column type would be written under a default '
                      'type name instead of being refused' % (src(par)[:50], ' inside a handler that swallows KeyError' if swallowed else ''),
                  construct='writer table use: ' + src(par)[:60])
    return writer, reader


def check_protect_flow(ctx, yc):
    n_sites = 0
    for m in ('write', 'append'):
        f = yc.method(m)
        fa = FA(f)
        # row loops: for sym in self.tables()
        for loop in walk_local(f.node):
            if isinstance(loop, ast.For) and isinstance(loop.target, ast.Name) and 'tables' in src(loop.iter):
                sym = loop.target.id
                for c in walk_local(loop):
                    if isinstance(c, ast.Call) and call_name(c) == 'append' and len(c.args) == 1 \
                            and isinstance(c.func.value, ast.Name):
                        # only appends that build the output line (a list later joined)
                        x = c.args[0]
                        if isinstance(x, ast.Name) and x.id == sym:
                            continue
                        forms = [(d, v) for d, v in fa.defs(x)] if isinstance(x, ast.Name) else [(c, x)]
                        for d, v in forms:
                            n_sites += 1
                            good = v is not None and protected(v, fa, 0, frozenset([sym]))
                            ctx.check('C01.PROTECT-FLOW', good, f, d if d is not None else c,
                                      'yanny.%s: cell `%s` reaches the row only through protect()'
                                      % (m, (src(v) if v is not None else src(x))[:70].replace('\n', ' ')),
                                      msg='yanny.%s emits a cell that did not go through protect(): strings that are empty or contain '
                                          'blanks, tabs or # would be split, dropped or truncated on read-back' % m,
                                      construct='unprotected cell in %s: %s' % (m, (src(v) if v is not None else src(x))[:80]))
                # rows rendered without a line list (f-string / format of the row)
                for st in walk_local(loop):
                    if isinstance(st, ast.AugAssign) and isinstance(st.target, ast.Name) and isinstance(st.op, ast.Add):
                        v = st.value
                        # contents += "{0}\n".format(' '.join(line))  -- line is a list built from protected cells
                        pass
    return n_sites


def check_protect_pred(ctx, yc):
    f = yc.method('protect')
    fa = FA(f)
    # the condition under which the quoted form is returned: the path condition of the return (or the test of a conditional
    # expression) whose value contains a double quote, with temporaries expanded and negations pushed inwards
    quoted_if = None
    cond = None
    for r in walk_local(f.node):
        if not (isinstance(r, ast.Return) and r.value is not None and '"' in src(r.value)):
            continue
        pcs = list(path_conditions(r))
        v = r.value
        if isinstance(v, ast.IfExp):
            inq, ino = '"' in src(v.body), '"' in src(v.orelse)
            if inq != ino:
                pcs.append((v.test, inq))
        if not pcs:
            continue
        parts = []
        for t_, pol in pcs:
            e_ = expand(t_, fa, depth=5)
            parts.append(e_ if pol else ast.UnaryOp(op=ast.Not(), operand=e_))
        cond = canon_test(parts[0] if len(parts) == 1 else ast.BoolOp(op=ast.And(), values=parts))
        quoted_if = r
    ctx.need(quoted_if is not None and cond is not None, 'protect(): the branch returning the quoted form was not found')
    t = cond
    disj0 = t.values if isinstance(t, ast.BoolOp) and isinstance(t.op, ast.Or) else [t]
    disj = []
    for d in disj0:
        # constant on the right
        if isinstance(d, ast.Compare) and len(d.ops) == 1 and isinstance(d.left, ast.Constant) and not isinstance(d.comparators[0], ast.Constant) \
                and type(d.ops[0]) in (ast.Lt, ast.LtE, ast.Gt, ast.GtE, ast.Eq, ast.NotEq):
            flip = {ast.Lt: ast.Gt, ast.LtE: ast.GtE, ast.Gt: ast.Lt, ast.GtE: ast.LtE, ast.Eq: ast.Eq, ast.NotEq: ast.NotEq}[type(d.ops[0])]
            d = ast.fix_missing_locations(ast.Compare(left=d.comparators[0], ops=[flip()], comparators=[d.left]))
        disj.append(d)
    has_empty = has_hash = has_space = None
    for d in disj:
        s = src(d)
        if isinstance(d, ast.Compare) and isinstance(d.left, ast.Call) and call_name(d.left) == 'len' \
                and ((try_fold(d.comparators[0]) == 0 and isinstance(d.ops[0], (ast.Eq, ast.LtE))) or
                     (try_fold(d.comparators[0]) == 1 and isinstance(d.ops[0], ast.Lt))):
            has_empty = d
        elif isinstance(d, ast.UnaryOp) and isinstance(d.op, ast.Not) and (isinstance(d.operand, (ast.Name, ast.IfExp)) or (
                isinstance(d.operand, ast.Call) and call_name(d.operand) in ('str', 'decode', 'len'))):
            has_empty = d
        elif isinstance(d, ast.Compare) and isinstance(d.comparators[0], ast.Constant) and d.comparators[0].value == '' \
                and isinstance(d.ops[0], ast.Eq):
            has_empty = d
        elif "'#'" in s and (('find' in s and isinstance(d, ast.Compare) and isinstance(d.ops[0], (ast.GtE, ast.NotEq, ast.Gt)))
                             or (isinstance(d, ast.Compare) and isinstance(d.ops[0], ast.In)) or 'count' in s):
            if 'find' in s and isinstance(d, ast.Compare):
                c = try_fold(d.comparators[0])
                good = (isinstance(d.ops[0], ast.GtE) and c == 0) or (isinstance(d.ops[0], ast.Gt) and c == -1) or \
                       (isinstance(d.ops[0], ast.NotEq) and c == -1)
                if good:
                    has_hash = d
            else:
                has_hash = d
        else:
            lits = rx.regex_literals(d)
            for c, fn, pat, pnode in lits:
                if fn != 'search':
                    continue
                items = rx.normal(pat)
                if len(items) == 1 and items[0][0] in ('MAX_REPEAT', 'IN', 'CATEGORY'):
                    inner = items[0][3][0] if items[0][0] == 'MAX_REPEAT' else items[0]
                    if items[0][0] == 'MAX_REPEAT' and items[0][1] < 1:
                        continue
                    if rx.item_admits(inner, ' ') and rx.item_admits(inner, '\t'):
                        has_space = d
                    if rx.item_admits(inner, '#'):
                        has_hash = d
            if any(isinstance(x, ast.Call) and call_name(x) == 'isspace' for x in ast.walk(d)):
                has_space = d
    ctx.check('C01.PROTECT-PRED', has_empty is not None, f, quoted_if, 'protect quotes the empty string (%s)' % (src(has_empty) if has_empty else ''),
              msg='protect() no longer quotes the empty string: an empty cell vanishes from the row and later columns shift',
              construct='protect predicate: ' + src(t))
    ctx.check('C01.PROTECT-PRED', has_hash is not None, f, quoted_if, 'protect quotes text containing # (%s)' % (src(has_hash) if has_hash else ''),
              msg='protect() no longer quotes text containing #: the rest of the row is read as a comment',
              construct='protect predicate: ' + src(t))
    ctx.check('C01.PROTECT-PRED', has_space is not None, f, quoted_if,
              'protect quotes text containing whitespace: re.search with a class covering blank and tab (%s)' % (src(has_space) if has_space else ''),
              msg='protect() does not quote every text containing a blank or a tab (re.search over a whitespace class expected)',
              construct='protect predicate: ' + src(t))
    # the text tested is the text returned
    rets = [r for r in walk_local(f.node) if isinstance(r, ast.Return) and r.value is not None]
    names = set()
    for r in rets:
        names |= {n.id for n in ast.walk(expand(r.value, fa, depth=5)) if isinstance(n, ast.Name)}
    funcs = {id(c.func) for c in ast.walk(t) if isinstance(c, ast.Call)}
    tested = {n.id for n in ast.walk(t) if isinstance(n, ast.Name) and id(n) not in funcs} - {'re', 'np', 'numpy', 'str', 'bytes', 'isinstance'}
    names -= {'np', 'numpy'}
    ctx.check('C01.PROTECT-PRED', tested and tested <= names, f, quoted_if,
              'the text tested (%s) is the text returned' % sorted(tested),
              msg='protect() tests %s but returns %s' % (sorted(tested), sorted(names)), construct='protect tested vs returned')
    # NO-MEMO
    decos = [src(d) for d in f.node.decorator_list]
    memo = [d for d in decos if any(w in d for w in ('lru_cache', 'cache', 'memo'))]
    ctx.check('C01.NO-MEMO', not memo, f, f.node,
              'protect is not memoised (decorators: %s)' % decos,
              msg='protect() is memoised by %s: arguments that compare equal but print differently (0.0 and -0.0, 1 and 1.0 and True) '
                  'would share one text' % memo, construct='memoised protect: %s' % memo)


def check_colorder(ctx, yc):
    f = yc.method('dtype_to_struct')
    loops = [n for n in walk_local(f.node) if isinstance(n, ast.For) and any(
        isinstance(c, ast.Call) and call_name(c) == 'append' for c in walk_local(n)) and 'names' in src(n.iter)]
    rets = [r for r in walk_local(f.node) if isinstance(r, ast.Return) and isinstance(r.value, ast.Dict)]
    ctx.need(loops and rets, 'dtype_to_struct: column loop / returned dict not found')
    colexpr = None
    for k, v in zip(rets[0].value.keys, rets[0].value.values):
        if not (isinstance(k, ast.Constant) and k.value in ('enum', 'struct')):
            colexpr = v
    ctx.need(colexpr is not None, 'dtype_to_struct: returned column list not found')
    inner = colexpr.args[0] if isinstance(colexpr, ast.Call) and call_name(colexpr) in ('list', 'tuple') and colexpr.args else colexpr
    ctx.check('C01.COLORDER', ast.dump(inner) == ast.dump(loops[-1].iter), f, rets[0],
              'returned column list and typedef lines iterate the same sequence %s' % src(inner),
              msg='the column list returned (%s) and the typedef text (%s) iterate different sequences: row cells would land '
                  'under other columns\' types' % (src(inner), src(loops[-1].iter)), construct='column order')


def check_strwidth(ctx, yc):
    """The type code, the array length and the string width of a column are all taken from the same level of the dtype:
    for a sub-array column the element dtype (subdtype[0] / .base), never the whole sub-array."""
    f = yc.method('dtype_to_struct')
    fa = FA(f)
    loop = [n for n in walk_local(f.node) if isinstance(n, ast.For) and 'names' in src(n.iter) and any(
        isinstance(c, ast.Call) and call_name(c) == 'append' for c in walk_local(n))]
    ctx.need(loop, 'dtype_to_struct: column loop not found')
    lp = loop[-1]

    def branch_of(node):
        """'V' when node is only reached for a sub-array column (kind == 'V'), 'N' when only for the others, None otherwise."""
        for t_, pol in path_conditions(node):
            te = canon_test(expand(t_, fa, depth=4))
            if isinstance(te, ast.Compare) and len(te.ops) == 1 and isinstance(te.ops[0], (ast.Eq, ast.NotEq)):
                sides = [te.left, te.comparators[0]]
                if any(isinstance(x, ast.Attribute) and x.attr == 'kind' for x in sides) and any(isinstance(x, ast.Constant) and x.value == 'V' for x in sides):
                    return 'V' if (pol == isinstance(te.ops[0], ast.Eq)) else 'N'
        return None

    def level(e, br, depth=0):
        """'col' (the column's own dtype) / 'elem' (the element dtype of a sub-array column) / None."""
        if depth > 5:
            return None
        if isinstance(e, ast.Attribute) and e.attr == 'base':
            return 'elem'
        if isinstance(e, ast.Subscript) and isinstance(e.value, ast.Attribute) and e.value.attr == 'subdtype' and try_fold(e.slice) == 0:
            return 'elem'
        if isinstance(e, ast.Subscript) and isinstance(e.value, ast.Name) and isinstance(e.slice, ast.Name) and isinstance(lp.target, ast.Name) \
                and e.slice.id == lp.target.id:
            return 'col'
        if isinstance(e, ast.Name):
            ls = {level(v, br, depth + 1) for d, v in fa.defs(e) if v is not None and branch_of(d) in (None, br)}
            return ls.pop() if len(ls) == 1 else None
        return None

    def holders(e, attr_test, br, depth=0):
        """The dtype expressions X such that e evaluates (in branch br) to something X-derived recognised by attr_test(X-expression)."""
        out = []
        if depth > 5:
            return out
        x = attr_test(e)
        if x is not None:
            return [x]
        if isinstance(e, ast.Name):
            for d, v in fa.defs(e):
                if v is not None and branch_of(d) in (None, br):
                    out += holders(v, attr_test, br, depth + 1)
        return out

    def code_of(e):          # X.str[1:]
        if isinstance(e, ast.Subscript) and isinstance(e.value, ast.Attribute) and e.value.attr == 'str':
            return e.value.value
        return None

    def size_of(e):          # X.itemsize
        if isinstance(e, ast.Attribute) and e.attr == 'itemsize':
            return e.value
        return None
    keys = [n.slice for n in walk_local(lp) if isinstance(n, ast.Subscript) and isinstance(n.ctx, ast.Load) and isinstance(n.value, ast.Name)
            and any(isinstance(v, ast.Dict) for d, v in fa.defs(n.value) if v is not None)]
    ctx.need(keys, 'dtype_to_struct: lookup of the type word in the writer table not found')
    fmt = [c for c in walk_local(lp) if isinstance(c, ast.Call) and call_name(c) == 'format' and isinstance(c.func.value, ast.Constant)
           and c.func.value.value == '[{0:d}]' and c.args]
    width = None
    for c in fmt:
        conds = [src(expand(t_, fa, depth=4)) for t_, pol in path_conditions(c)]
        if any("'SU'" in x for x in conds):
            width = c.args[0]
    ctx.need(width is not None, 'dtype_to_struct: string width suffix not found')
    bad = []
    n_br = 0
    for br in ('V', 'N'):
        tl = {level(x, br) for x in holders(keys[0], code_of, br)}
        wl = {level(x, br) for x in holders(width, size_of, br)}
        ctx.need(tl and wl and None not in tl and None not in wl, 'dtype_to_struct: the dtype level of the type code / string width could not be followed')
        n_br += 1
        if br == 'V' and tl != wl:
            bad.append((sorted(tl), sorted(wl)))
    ctx.check('C01.STRWIDTH', not bad, f, width, 'type code and string width come from the same dtype level in every branch (%d branch(es))' % n_br,
              msg='for a sub-array column the type code is taken from the %s dtype but the string width from the %s dtype: a string-array column '
                  '(S6, (3,)) is declared char[3][18] and reads back with another type' % (bad[0] if bad else ('', '')), construct='string width level: %s' % (bad[:1],))


def check_zero_row(ctx, yc):
    """Filling the record array from the parsed column lists must work for a table without rows: an empty list cannot be broadcast into
    an (0, k) array column, so the store is guarded by the row count or the value is shaped explicitly."""
    f = yc.method('_parse')
    fills = [st for st in walk_local(f.node) if isinstance(st, ast.Assign) and isinstance(st.targets[0], ast.Subscript) and src(st.targets[0].value) == 'record']
    ctx.need(fills, '_parse: record fill not found')
    for st in fills:
        guarded = any(isinstance(a, ast.If) and ('size' in src(a.test) or 'len(' in src(a.test)) and '0' in src(a.test) for a in ancestors(st))
        shaped = any(isinstance(c, ast.Call) and call_name(c) in ('reshape', 'array', 'asarray') for c in ast.walk(st.value))
        ctx.check('C01.ZERO-ROW', guarded or shaped, f, st, 'the record fill `%s` is safe for a table without rows' % src(st)[:50],
                  msg='`%s` assigns the parsed column list unconditionally: for a zero-row table with an array column the empty list cannot be broadcast into '
                      'shape (0, k) and reading the file back raises ValueError' % src(st)[:60], construct='record fill ' + src(st)[:60])


def upper_derived(e, fa, depth=0):
    e0 = e
    if isinstance(e, ast.Call) and call_name(e) == 'upper':
        return True
    if isinstance(e, ast.Name) and depth < 4:
        ds = fa.defs(e)
        return bool(ds) and all(v is not None and upper_derived(v, fa, depth + 1) for d, v in ds)
    return False


def check_case(ctx, repo, yc):
    n = 0
    for f in (repo.func(YANNY, 'write_ndarray_to_yanny'), yc.method('_parse')):
        fa = FA(f)
        for st in walk_local(f.node):
            if isinstance(st, (ast.Assign, ast.AugAssign)):
                tg = st.targets if isinstance(st, ast.Assign) else [st.target]
                for t in tg:
                    if isinstance(t, ast.Subscript) and isinstance(t.value, ast.Attribute) and t.value.attr == '_symbols':
                        if isinstance(t.slice, ast.Constant):
                            continue
                        n += 1
                        ctx.check('C01.CASE', upper_derived(t.slice, fa), f, st,
                                  '%s: table registered under upper-cased key %s' % (f.qualname, src(t.slice)),
                                  msg='%s registers a table under a key that is not upper-cased (%s): rows written under the '
                                      'upper-cased struct name would not find it' % (f.qualname, src(t.slice)),
                                  construct='symbol key ' + src(t.slice))
    # dtype_to_struct: struct text and returned key use structname.upper()
    f = yc.method('dtype_to_struct')
    fa = FA(f)
    rets = [r for r in walk_local(f.node) if isinstance(r, ast.Return) and isinstance(r.value, ast.Dict)]
    for k in rets[0].value.keys:
        if not isinstance(k, ast.Constant):
            ctx.check('C01.CASE', upper_derived(k, fa), f, rets[0], 'dtype_to_struct returns columns under %s' % src(k),
                      msg='dtype_to_struct returns the column list under a key that is not upper-cased', construct='returned key ' + src(k))
    closing = [c for c in walk_local(f.node) if isinstance(c, ast.Call) and call_name(c) == 'format' and isinstance(c.func.value, ast.Constant)
               and isinstance(c.func.value.value, str) and c.func.value.value.startswith('}}')]
    structs = [c for c in closing if any('structname' in src(a) for a in c.args)]
    ctx.need(structs, 'dtype_to_struct: closing line of the typedef not found')
    ctx.check('C01.CASE', all(upper_derived(a, fa) for c in structs for a in c.args), f, structs[0],
              'typedef struct is closed with the upper-cased structure name',
              msg='typedef struct is closed with a name that is not upper-cased', construct='typedef closing name')
    # _parse: dispatch key
    f = yc.method('_parse')
    fa = FA(f)
    disp = [c for c in row_dispatch_tests(f) if src(c.comparators[0]) == 'self._symbols']
    ctx.need(disp, '_parse: row dispatch test `<key> in self._symbols` not found')
    for c in disp:
        ctx.check('C01.CASE', upper_derived(c.left, fa), f, c, '_parse dispatches a data row on the upper-cased first word (%s)' % src(c.left),
                  msg='_parse dispatches rows on a key that is not upper-cased', construct='dispatch key ' + src(c.left))


def check_intconv(ctx, yc):
    f = yc.method('convert')
    fa = FA(f)
    count = 0
    for s_, kind, elementwise, direct, elt, anchor in convert_model(f, fa, yc.cls):
        count += 1
        ctx.check('C01.INTCONV', direct, f, elt,
                  'convert(): %s cells are converted by %s(<token>) directly%s' % ('integer' if kind == 'int' else 'float', kind, ' (element by element)' if elementwise else ''),
                  msg='convert() turns a token into %s via %s: 64-bit integers above 2**53 (or other values) lose '
                      'precision through the intermediate conversion' % (kind, src(elt)),
                  construct='conversion ' + src(elt))
    ctx.need(count >= 4, 'convert(): fewer than four int()/float() conversions found')


def check_enum_labels(ctx, yc):
    """C01.ENUM-LABELS: the labels of an enum typedef are what stands between the commas.  They are identifiers - letters, digits,
    underscores - so a pattern that picks the labels out has to admit all three (a label such as EBOSS_DR16 cut at its first digit
    makes the enum column too narrow, and the cells are truncated on the way back in)."""
    f = yc.method('isenum')
    fa = FA(f)
    ctx.cover(f)
    n = 0
    for st in walk_local(f.node):
        if not (isinstance(st, ast.Assign) and len(st.targets) == 1 and isinstance(st.targets[0], ast.Subscript) and '_enum_cache' in src(st.targets[0].value)):
            continue
        v = fa.deep(st.value) if isinstance(st.value, ast.Name) else st.value
        calls = [c for c in ast.walk(v) if isinstance(c, ast.Call) and isinstance(c.func, ast.Attribute) and c.func.attr in ('findall', 'finditer', 'split')]
        for c in calls:
            pat = None
            if dotted(c.func.value) == 're' and c.args and isinstance(c.args[0], ast.Constant) and isinstance(c.args[0].value, str):
                pat = c.args[0].value
            elif c.func.attr == 'split' and c.args and isinstance(c.args[0], ast.Constant) and isinstance(c.args[0].value, str) and dotted(c.func.value) != 're':
                n += 1
                ctx.check('C01.ENUM-LABELS', ',' in c.args[0].value and c.args[0].value.strip() == ',', f, c, 'enum labels: the text between the commas (`%s`)' % src(c)[:50],
                          msg='isenum splits the label list at %r, not at the commas' % c.args[0].value, construct='enum label split')
                continue
            if pat is None:
                continue
            n += 1
            if c.func.attr == 'split':
                items = rx.normal(pat)
                ok = bool(items) and rx.item_admits(items[0], ',') if items and items[0][0] in ('IN', 'LITERAL', 'CATEGORY') else (',' in pat)
                ctx.check('C01.ENUM-LABELS', ok, f, c, 'enum labels: the text between the commas (re.split over %r)' % pat,
                          msg='isenum splits the label list with %r, which does not split at a comma' % pat, construct='enum label split')
            else:
                cls = [it for it in rx.normal(pat) if it[0] in ('MAX_REPEAT', 'IN', 'CATEGORY')]
                inner = None
                if cls:
                    inner = cls[0][3][0] if cls[0][0] == 'MAX_REPEAT' else cls[0]
                ok = inner is not None and all(rx.item_admits(inner, ch) for ch in ('A', 'z', '0', '9', '_'))
                ctx.check('C01.ENUM-LABELS', ok, f, c, 'enum labels: picked out by %r, which admits letters, digits and underscores' % pat,
                          msg='isenum picks the enum labels out with %r, which does not admit every identifier character (letters, digits, underscore): a label '
                              'such as EBOSS_DR16 is cut short, the enum column is sized too narrow and its cells are truncated when the file is read back' % pat,
                          construct='enum label pattern %r' % pat)
    ctx.need(n >= 1, 'isenum: the extraction of the enum labels was not found')


def check_pairs(ctx, yc):
    f = yc.method('pairs')
    fa = FA(f)
    # membership tests `k not in X`: X must be self.tables()
    tests = [c for c in walk_local(f.node) if isinstance(c, ast.Compare) and len(c.ops) == 1 and isinstance(c.ops[0], (ast.NotIn, ast.In))]
    ctx.need(tests, 'pairs(): membership filter not found')
    for c in tests:
        x = fa.deep(c.comparators[0])
        while isinstance(x, ast.Call) and call_name(x) in ('set', 'list', 'tuple', 'frozenset') and x.args:
            x = fa.deep(x.args[0])
        ok = isinstance(x, ast.Call) and isinstance(x.func, ast.Attribute) and x.func.attr == 'tables' \
            and isinstance(x.func.value, ast.Name) and x.func.value.id == 'self'
        ctx.check('C01.PAIRS', ok, f, c, 'pairs(): a key is a keyword exactly when it is not in self.tables()',
                  msg='pairs() filters keys against %s instead of self.tables(): header keywords that coincide with other '
                      'bookkeeping entries are silently dropped' % src(c.comparators[0]), construct='pairs filter ' + src(c))
    f = yc.method('tables')
    excl = None
    for c in walk_local(f.node):
        if isinstance(c, ast.Compare) and len(c.ops) == 1 and isinstance(c.ops[0], (ast.NotIn, ast.In)):
            s = const_set(c.comparators[0])
            if s is not None:
                excl = (c, s)
    ctx.need(excl is not None, 'tables(): exclusion set not found')
    ctx.check('C01.PAIRS', excl[1] == {'struct', 'enum'}, f, excl[0], 'tables(): every symbol except struct and enum',
              msg='tables() excludes %s, expected exactly struct and enum' % sorted(excl[1]), construct='tables exclusion')


def check_entry(ctx, repo):
    f_wt = repo.func(YANNY, 'write_table_yanny')
    f_rt = repo.func(YANNY, 'read_table_yanny')
    f_nd = repo.func(YANNY, 'write_ndarray_to_yanny')
    ctx.cover(f_wt, f_rt, f_nd)
    calls = [c for c in walk_local(f_wt.node) if isinstance(c, ast.Call) and repo.resolve_call(c, f_wt) is f_nd]
    from .yannylib import open_calls
    ctx.check('C01.ENTRY', len(calls) == 1 and not open_calls(f_wt.node), f_wt, calls[0] if calls else f_wt.node,
              'write_table_yanny reaches the file only through write_ndarray_to_yanny',
              msg='write_table_yanny does not delegate to write_ndarray_to_yanny (or opens files itself)', construct='write_table_yanny entry')
    if calls:
        fa = FA(f_wt)
        hdr = None
        for k in calls[0].keywords:
            if k.arg == 'hdr':
                hdr = k.value
        if hdr is None and len(calls[0].args) > 4:
            hdr = calls[0].args[4]
        ok = False
        if hdr is not None:
            vals = [v for d, v in fa.defs(hdr)] if isinstance(hdr, ast.Name) else [hdr]
            ok = any(v is not None and src(v).endswith('.meta') for v in vals)
        ctx.check('C01.ENTRY', ok, f_wt, calls[0], 'write_table_yanny passes table.meta as the header pairs',
                  msg='write_table_yanny does not pass table.meta as hdr: header pairs of the Table are lost', construct='hdr argument')
    # read side
    ctor = [c for c in walk_local(f_rt.node) if isinstance(c, ast.Call) and isinstance(c.func, ast.Name) and c.func.id == 'yanny']
    meta = [st for st in walk_local(f_rt.node) if isinstance(st, ast.Assign) and isinstance(st.targets[0], ast.Attribute)
            and st.targets[0].attr == 'meta' and 'new_dict_from_pairs' in src(st.value)]
    ctx.check('C01.ENTRY', len(ctor) == 1 and bool(meta), f_rt, ctor[0] if ctor else f_rt.node,
              'read_table_yanny parses through yanny(filename) and fills Table.meta from new_dict_from_pairs()',
              msg='read_table_yanny does not read through yanny() / does not fill meta from the pairs', construct='read_table_yanny entry')
    up = [c for c in walk_local(f_rt.node) if isinstance(c, ast.Subscript) and isinstance(c.value, ast.Name) and c.value.id == 'par']
    ctx.check('C01.ENTRY', bool(up) and all(isinstance(u.slice, ast.Call) and call_name(u.slice) == 'upper' for u in up), f_rt, up[0] if up else f_rt.node,
              'read_table_yanny looks the table up under tablename.upper()',
              msg='read_table_yanny looks the table up under a key that is not upper-cased', construct='table key in read_table_yanny')


def run(ctx):
    repo = ctx.repo
    yc = YannyClass(repo)
    check_typemap(ctx, yc)
    n = check_protect_flow(ctx, yc)
    ctx.need(n >= 2, 'fewer emitted cells than expected in write/append row loops')
    check_protect_pred(ctx, yc)
    check_colorder(ctx, yc)
    check_strwidth(ctx, yc)
    check_zero_row(ctx, yc)
    from .c02 import check_cont
    sub = type(ctx)(ctx.prop, ctx.repo, ctx.tier)
    check_cont(sub, yc)
    for o in sub.obligations:
        o['rule'] = 'C01.CONT'
        ctx.obligations.append(o)
        ctx.rule_counts['C01.CONT'] = ctx.rule_counts.get('C01.CONT', 0) + 1
    for v in sub.violations:
        v.rule = 'C01.CONT'
        ctx.violations.append(v)
    check_case(ctx, repo, yc)
    check_intconv(ctx, yc)
    check_pairs(ctx, yc)
    check_enum_labels(ctx, yc)
    check_entry(ctx, repo)

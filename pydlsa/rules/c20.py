"""C20 -- a failing pipeline call leaves the process environment as it found it.

Decided: (1) inventory of every os.environ mutation in the package and the call-graph closure of
the functions that reach one; (2) save -> mutate -> restore typestate over the exceptional CFG:
at EXIT_RETURN and at EXIT_RAISE of every function that (transitively) mutates the environment,
every key is clean.  Interprocedural by analysing a callee's body in the caller's abstract state.
"""

import ast

from .. import AnalysisError
from ..astutil import clone, src, fold, NoFold, dotted, walk_local, call_name
from ..cfg import CFG, forward, EXIT_RAISE, EXIT_RETURN
from ..callgraph import CallGraph

META = {
    'property': 'C20',
    'title': 'A failing pipeline call leaves the process environment as it found it',
    'technique': 'who-may-mutate inventory over the resolved call graph + save/mutate/restore typestate '
                 'dataflow over a statement CFG with exceptional edges (interprocedural, context-sensitive)',
    'explanation': (
        'Decided: C20.INVENTORY - every mutation of os.environ in the package (subscript store, del, '
        'pop/update/clear/setdefault/popitem, os.putenv/unsetenv, through local aliases) is found and every '
        'function from which one is reachable is analysed; C20.RESTORE - abstract state per environment key '
        '(clean | dirty) plus the set of valid save slots; a mutation makes its key dirty, a restore (assign back '
        'the value read from the same key while it was clean; or the two-armed form delete-if-it-was-absent / '
        'assign-back-otherwise) makes it clean; obligation: at EXIT_RETURN and EXIT_RAISE of every mutating '
        'function every key is clean (template_metadata may return dirty keys whose save slots it returns: its '
        'callers are checked instead; its exceptional exit must be clean); C20.EXIT - one obligation per exit '
        'edge of the anchored entry points, so failure exits before the first mutation are covered too. '
        'Fault model: any statement containing a call, subscript, attribute access, arithmetic or comparison '
        'may raise an Exception at that point. NOT decided: that external libraries leave os.environ alone; '
        'values of variables (only save/restore pairing is tracked).'),
    'floors': {'C20.INVENTORY': 5, 'C20.RESTORE': 3, 'C20.EXIT': 10},
    'assumptions': [
        'C20: restore statements inside a finally block, a catch-all handler or a restore-only helper do not themselves raise',
        'C20: `except Exception` counts as catch-all for the injected-fault model (faults are Exception subclasses)',
        'C20: calls into numpy/scipy/astropy/matplotlib/stdlib are environment-pure',
    ],
}

ANCHORS = [('pydl/photoop/window.py', 'window_score'),
           ('pydl/pydlspec2d/spec1d.py', 'template_input'),
           ('pydl/pydlspec2d/spec1d.py', 'template_metadata')]

# functions allowed to *return* with dirty keys because they hand the save slots to their caller.
# One line of reason each.
DIRTY_RETURN_OK = {
    ('pydl/pydlspec2d/spec1d.py', 'template_metadata'):
        'documented helper of template_input: sets RUN2D/RUN1D from the parameter file and returns the '
        'original values in metadata[orig_*]; its only package caller restores them',
}

ENV_MUTATING_METHODS = {'pop', 'update', 'clear', 'setdefault', 'popitem', '__setitem__', '__delitem__'}


# --------------------------------------------------------------------------------------
# recognising os.environ

class EnvView:
    """Knows which expressions denote os.environ inside one function (after import resolution
    and through simple local aliases `env = os.environ`)."""

    def __init__(self, repo, func):
        self.repo = repo
        self.func = func
        self.aliases = set()
        for n in walk_local(func.node):
            if isinstance(n, ast.Assign) and len(n.targets) == 1 and isinstance(n.targets[0], ast.Name):
                if self._is_env_expr(n.value):
                    self.aliases.add(n.targets[0].id)

    def _is_env_expr(self, e):
        d = self.repo.external_name(e, self.func.module) if isinstance(e, (ast.Name, ast.Attribute)) else None
        return d == 'os.environ'

    def is_env(self, e):
        if isinstance(e, ast.Name) and e.id in self.aliases:
            return True
        return self._is_env_expr(e)

    def os_func(self, call):
        d = self.repo.external_name(call.func, self.func.module) if isinstance(call.func, (ast.Name, ast.Attribute)) else None
        if d in ('os.putenv', 'os.unsetenv'):
            return d
        return None


def unroll_literal_loops(fn):
    """Copy of the function in which `for v in (<constants>)` loops without break/continue are
    replaced by one copy of the body per element with v substituted (DESIGN 10: keys fold to
    constants and 'zero iterations' is not a path)."""
    fn = clone(fn)

    class Sub(ast.NodeTransformer):
        def __init__(self, name, value):
            self.name, self.value = name, value

        def visit_Name(self, n):
            if n.id == self.name and isinstance(n.ctx, ast.Load):
                return ast.copy_location(ast.Constant(value=self.value), n)
            return n

    class U(ast.NodeTransformer):
        def visit_For(self, node):
            self.generic_visit(node)
            if not isinstance(node.target, ast.Name) or node.orelse:
                return node
            if not isinstance(node.iter, (ast.Tuple, ast.List)) or not node.iter.elts:
                return node
            if not all(isinstance(e, ast.Constant) for e in node.iter.elts):
                return node
            for n in ast.walk(node):
                if isinstance(n, (ast.Break, ast.Continue)):
                    return node
                if n is not node and isinstance(n, (ast.Assign, ast.AugAssign)):
                    for t in (n.targets if isinstance(n, ast.Assign) else [n.target]):
                        if isinstance(t, ast.Name) and t.id == node.target.id:
                            return node
            out = []
            for e in node.iter.elts:
                for st in node.body:
                    out.append(Sub(node.target.id, e.value).visit(clone(st)))
            return out
    fn = U().visit(fn)
    ast.fix_missing_locations(fn)
    for n in ast.walk(fn):
        for c in ast.iter_child_nodes(n):
            c._parent = n
    return fn


def key_of(e):
    """Environment key as a constant when foldable, else a symbolic '<expr>' key."""
    try:
        v = fold(e)
        if isinstance(v, str):
            return v
    except NoFold:
        pass
    return '<' + src(e) + '>'


def slot_of(e):
    """A place a saved value can live in: a local name, or a constant-keyed field of a dict held in
    a name (field slots are identified by the field key: they travel with the dict between
    functions)."""
    if isinstance(e, ast.Name):
        return ('var', e.id)
    if isinstance(e, ast.Subscript) and isinstance(e.value, ast.Name):
        try:
            k = fold(e.slice)
        except NoFold:
            return None
        if isinstance(k, str):
            return ('field', k)
    return None


class Event:
    """Classification of one simple statement with respect to the environment."""
    __slots__ = ('kind', 'key', 'slot', 'strict', 'node', 'call', 'extra')

    def __init__(self, kind, key=None, slot=None, strict=None, node=None, call=None, extra=None):
        self.kind, self.key, self.slot, self.strict, self.node, self.call, self.extra = \
            kind, key, slot, strict, node, call, extra


def env_read(view, e):
    """(key, strict) if e reads one environment variable: os.environ[K] -> strict,
    os.environ.get(K[, None]) / os.getenv(K) -> optional."""
    if isinstance(e, ast.Subscript) and view.is_env(e.value):
        return key_of(e.slice), True
    if isinstance(e, ast.Call):
        if isinstance(e.func, ast.Attribute) and e.func.attr == 'get' and view.is_env(e.func.value) and e.args:
            if len(e.args) == 1 or (isinstance(e.args[1], ast.Constant) and e.args[1].value is None):
                return key_of(e.args[0]), False
        d = view.repo.external_name(e.func, view.func.module) if isinstance(e.func, (ast.Name, ast.Attribute)) else None
        if d == 'os.getenv' and e.args and (len(e.args) == 1 or (isinstance(e.args[1], ast.Constant) and e.args[1].value is None)):
            return key_of(e.args[0]), False
    return None


def classify(view, st):
    """List of Events for a simple statement (mutations, saves, slot kills)."""
    ev = []
    if isinstance(st, ast.Assign):
        rd = env_read(view, st.value)
        for t in st.targets:
            if isinstance(t, ast.Subscript) and view.is_env(t.value):
                ev.append(Event('assign', key=key_of(t.slice), slot=slot_of(st.value), node=st))
            else:
                s = slot_of(t)
                if s is not None:
                    if rd is not None:
                        ev.append(Event('save', key=rd[0], slot=s, strict=rd[1], node=st))
                    elif isinstance(st.value, ast.Constant) and st.value.value is None:
                        ev.append(Event('none', slot=s, node=st))
                    else:
                        ev.append(Event('kill', slot=s, node=st))
                elif isinstance(t, (ast.Tuple, ast.List)):
                    for e in t.elts:
                        s2 = slot_of(e)
                        if s2 is not None:
                            ev.append(Event('kill', slot=s2, node=st))
    elif isinstance(st, ast.AugAssign):
        if isinstance(st.target, ast.Subscript) and view.is_env(st.target.value):
            ev.append(Event('assign', key=key_of(st.target.slice), slot=None, node=st))
        else:
            s = slot_of(st.target)
            if s is not None:
                ev.append(Event('kill', slot=s, node=st))
    elif isinstance(st, ast.Delete):
        for t in st.targets:
            if isinstance(t, ast.Subscript) and view.is_env(t.value):
                ev.append(Event('remove', key=key_of(t.slice), node=st))
    # method calls anywhere in the statement
    for n in walk_local(st):
        if isinstance(n, ast.Call):
            if isinstance(n.func, ast.Attribute) and view.is_env(n.func.value) and n.func.attr in ENV_MUTATING_METHODS:
                m = n.func.attr
                if m in ('pop', '__delitem__') and n.args:
                    ev.append(Event('remove', key=key_of(n.args[0]), node=st, call=n))
                elif m in ('setdefault', '__setitem__') and n.args:
                    ev.append(Event('assign', key=key_of(n.args[0]), slot=None, node=st, call=n))
                elif m == 'update':
                    keys = []
                    if n.args and isinstance(n.args[0], ast.Dict) and all(k is not None for k in n.args[0].keys):
                        keys = [key_of(k) for k in n.args[0].keys]
                    keys += [k.arg for k in n.keywords if k.arg]
                    if not keys or (n.args and not isinstance(n.args[0], ast.Dict)):
                        keys.append('<*>')
                    for k in keys:
                        ev.append(Event('assign', key=k, slot=None, node=st, call=n))
                else:
                    ev.append(Event('assign', key='<*>', slot=None, node=st, call=n))
            else:
                of = view.os_func(n)
                if of == 'os.putenv' and n.args:
                    ev.append(Event('assign', key=key_of(n.args[0]), slot=None, node=st, call=n))
                elif of == 'os.unsetenv' and n.args:
                    ev.append(Event('remove', key=key_of(n.args[0]), node=st, call=n))
    return ev


def none_test(test):
    """(slot, branch label on which the slot IS None) for `S is None`, `S is not None`,
    `S == None`, `S != None`; else None."""
    if isinstance(test, ast.Compare) and len(test.ops) == 1 and isinstance(test.comparators[0], ast.Constant) \
            and test.comparators[0].value is None:
        s = slot_of(test.left)
        if s is None:
            return None
        if isinstance(test.ops[0], (ast.Is, ast.Eq)):
            return s, True
        if isinstance(test.ops[0], (ast.IsNot, ast.NotEq)):
            return s, False
    if isinstance(test, ast.UnaryOp) and isinstance(test.op, ast.Not):
        r = none_test(test.operand)
        if r:
            return r[0], (not r[1])
    return None


# --------------------------------------------------------------------------------------
# abstract state:  (dirty: frozenset of keys,
#                   saves: frozenset of (slot, key, strict),
#                   facts: frozenset of (slot, is_none))

EMPTY = (frozenset(), frozenset(), frozenset())


def join(a, b):
    if a == b:
        return a
    dirty = a[0] | b[0]
    sa = {(s, k): strict for s, k, strict in a[1]}
    sb = {(s, k): strict for s, k, strict in b[1]}
    saves = frozenset((s, k, sa[(s, k)] and sb[(s, k)]) for (s, k) in sa if (s, k) in sb)
    facts = a[2] & b[2]
    return (dirty, saves, facts)


def drop_slot(saves, slot):
    return frozenset(x for x in saves if x[0] != slot)


class Analyzer:
    def __init__(self, ctx, repo, cg, mutators):
        self.ctx = ctx
        self.repo = repo
        self.cg = cg
        self.mutators = mutators      # set of Func that transitively reach a mutation
        self.memo = {}
        self.stack = []
        self.prepared = {}

    # -- per-function preparation
    def prepare(self, f):
        if f in self.prepared:
            return self.prepared[f]
        fn = unroll_literal_loops(f.node)
        view = EnvView(self.repo, f)
        restore_only = self._restore_only(f, fn, view)
        quiet = set()       # statements / tests assumed not to raise

        def mark_quiet(stmts):
            for st in stmts:
                for n in ast.walk(st):
                    quiet.add(id(n))
        if restore_only:
            mark_quiet(fn.body)
        for n in ast.walk(fn):
            if isinstance(n, ast.Try):
                if n.finalbody:
                    self._mark_restore_stmts(n.finalbody, view, quiet)
                for h in n.handlers:
                    if h.type is None or (dotted(h.type) or '').split('.')[-1] in ('BaseException', 'Exception'):
                        self._mark_restore_stmts(h.body, view, quiet)

        def may_raise(node):
            if id(node) in quiet:
                return False
            return None
        cfg = CFG(fn, may_raise=may_raise, exception_is_catchall=True)
        p = {'fn': fn, 'view': view, 'cfg': cfg, 'restore_only': restore_only}
        self.prepared[f] = p
        return p

    def _is_restore_construct(self, st, view):
        """Shape test (state-independent): a statement that only puts saved values back."""
        if isinstance(st, (ast.Pass,)):
            return True
        if isinstance(st, ast.Return) and (st.value is None or isinstance(st.value, ast.Constant)):
            return True
        if isinstance(st, ast.Expr) and isinstance(st.value, ast.Constant):
            return True       # docstring
        if isinstance(st, ast.Assign) and len(st.targets) == 1:
            t = st.targets[0]
            if isinstance(t, ast.Subscript) and view.is_env(t.value) and slot_of(st.value) is not None:
                return True
            return False
        if isinstance(st, ast.Delete):
            return all(isinstance(t, ast.Subscript) and view.is_env(t.value) for t in st.targets)
        if isinstance(st, ast.Expr) and isinstance(st.value, ast.Call):
            c = st.value
            if isinstance(c.func, ast.Attribute) and view.is_env(c.func.value) and c.func.attr == 'pop':
                return True
            g = self.repo.resolve_call(c, view.func)
            if g is not None and g in self.mutators and self.prepare(g)['restore_only']:
                return True
            return False
        if isinstance(st, ast.If):
            if none_test(st.test) is None:
                return False
            return all(self._is_restore_construct(x, view) for x in st.body + st.orelse)
        if isinstance(st, ast.For):
            return False      # literal loops are already unrolled
        return False

    def _restore_only(self, f, fn, view):
        body = fn.body
        if not body:
            return False
        has_env = False
        for st in body:
            if not self._is_restore_construct(st, view):
                return False
        for n in ast.walk(fn):
            if isinstance(n, (ast.Subscript, ast.Attribute, ast.Name)) and view.is_env(n):
                has_env = True
        return has_env

    def _mark_restore_stmts(self, stmts, view, quiet):
        for st in stmts:
            if self._is_restore_construct(st, view):
                for n in ast.walk(st):
                    quiet.add(id(n))

    # -- transfer
    def summary(self, f, state):
        """(normal_out or None, exc_out or None, exit_records) of f entered in `state`."""
        key = (f, state)
        if key in self.memo:
            return self.memo[key]
        if f in self.stack or len(self.stack) > 6:
            raise AnalysisError('C20: recursive or too deep call chain through environment-mutating functions at %s'
                                % f.qualname)
        self.stack.append(f)
        try:
            p = self.prepare(f)
            cfg = p['cfg']
            view = p['view']
            # local var slots of the caller are meaningless here: keep only field slots
            dirty, saves, facts = state
            saves = frozenset(x for x in saves if x[0][0] == 'field')
            facts = frozenset(x for x in facts if x[0][0] == 'field')
            init = (dirty, saves, facts)

            def transfer(n, s, label):
                return self._transfer(f, view, n, s, label)
            IN = forward(cfg, init, transfer, join)
            out_n = IN.get(cfg.exit_return.id)
            out_e = IN.get(cfg.exit_raise.id)
            # per-edge records for the exits
            recs = []
            for ex, tag in ((cfg.exit_return, 'return'), (cfg.exit_raise, 'raise')):
                for pnode, label in ex.pred:
                    if pnode.id not in IN:
                        continue
                    so = self._transfer(f, view, pnode, IN[pnode.id], label)
                    if so is None:
                        continue
                    recs.append((tag, pnode, so))

            def localize(s):
                if s is None:
                    return None
                return (s[0], frozenset(x for x in s[1] if x[0][0] == 'field'),
                        frozenset(x for x in s[2] if x[0][0] == 'field'))
            res = (localize(out_n), localize(out_e), recs)
            self.memo[key] = res
            return res
        finally:
            self.stack.pop()

    def _transfer(self, f, view, n, s, label):
        dirty, saves, facts = s
        if n.kind == 'test':
            nt = none_test(n.expr)
            if nt is not None and label in (True, False):
                slot, none_on = nt
                facts = frozenset(x for x in facts if x[0] != slot) | {(slot, label == none_on)}
            return (dirty, saves, facts)
        if n.kind != 'stmt':
            return s
        st = n.stmt
        if label == 'exc':
            # the exception leaves before the statement's own effect -- except that a call into a
            # mutating package function may fail half-way: add its exceptional out-state
            out = s
            for c in walk_local(st):
                if isinstance(c, ast.Call):
                    g = self.repo.resolve_call(c, f)
                    if g is not None and g in self.mutators:
                        _, ge, _ = self.summary(g, s)
                        if ge is not None:
                            out = join(out, ge) if out is not None else ge
                            out = (out[0], s[1] & out[1], s[2] & out[2])
            return out
        for e in classify(view, st):
            if e.kind == 'save':
                saves = drop_slot(saves, e.slot)
                facts = frozenset(x for x in facts if x[0] != e.slot)
                if e.key not in dirty:
                    saves = saves | {(e.slot, e.key, e.strict)}
            elif e.kind == 'none':
                # `v = None` in a KeyError handler of a try whose body saves into v
                k = self._handler_save_key(st, e.slot, view)
                saves = drop_slot(saves, e.slot)
                facts = frozenset(x for x in facts if x[0] != e.slot)
                if k is not None and k not in dirty:
                    saves = saves | {(e.slot, k, False)}
                    facts = facts | {(e.slot, True)}
            elif e.kind == 'kill':
                saves = drop_slot(saves, e.slot)
                facts = frozenset(x for x in facts if x[0] != e.slot)
            elif e.kind == 'assign':
                ok = False
                if e.slot is not None:
                    for (sl, k, strict) in saves:
                        if sl == e.slot and k == e.key:
                            if strict or (sl, False) in facts:
                                ok = True
                if ok:
                    dirty = dirty - {e.key}
                else:
                    dirty = dirty | {e.key}
            elif e.kind == 'remove':
                ok = False
                for (sl, k, strict) in saves:
                    if k == e.key and not strict and (sl, True) in facts:
                        ok = True
                if ok:
                    dirty = dirty - {e.key}
                else:
                    dirty = dirty | {e.key}
        # calls into mutating package functions (normal return)
        cur = (dirty, saves, facts)
        for c in walk_local(st):
            if isinstance(c, ast.Call):
                g = self.repo.resolve_call(c, f)
                if g is not None and g in self.mutators:
                    gn, _, _ = self.summary(g, cur)
                    if gn is None:
                        return None      # callee never returns normally
                    local_saves = frozenset(x for x in cur[1] if x[0][0] == 'var')
                    local_facts = frozenset(x for x in cur[2] if x[0][0] == 'var')
                    cur = (gn[0], gn[1] | local_saves, gn[2] | local_facts)
        return cur

    def _handler_save_key(self, st, slot, view):
        h = getattr(st, '_parent', None)
        if not isinstance(h, ast.ExceptHandler):
            return None
        if h.type is None or (dotted(h.type) or '').split('.')[-1] != 'KeyError':
            return None
        t = getattr(h, '_parent', None)
        if not isinstance(t, ast.Try):
            return None
        for b in t.body:
            for e in classify(view, b) if isinstance(b, (ast.Assign,)) else []:
                if e.kind == 'save' and e.slot == slot:
                    return e.key
        return None


def run(ctx):
    repo = ctx.repo
    anchors = [repo.func(rel, q) for rel, q in ANCHORS]
    ctx.cover(*anchors)
    cg = CallGraph(repo)
    ctx.notes['call_sites'] = cg.n_calls
    ctx.notes['call_sites_resolved_in_package'] = cg.n_resolved

    # ---- C20.INVENTORY -----------------------------------------------------------------
    direct = {}
    for f in repo.all_funcs():
        view = EnvView(repo, f)
        fn = f.node
        if any(isinstance(n, ast.For) and isinstance(n.iter, (ast.Tuple, ast.List)) for n in walk_local(fn)):
            fn = unroll_literal_loops(fn)      # keys fold to constants
        sites = []
        for st in walk_local(fn):
            if isinstance(st, ast.stmt) and not isinstance(st, (ast.FunctionDef, ast.ClassDef, ast.If, ast.For, ast.While,
                                                                ast.Try, ast.With)):
                for e in classify(view, st):
                    if e.kind in ('assign', 'remove'):
                        sites.append((st, e))
        # header expressions of compound statements may hide a mutating call
        for st in walk_local(fn):
            if isinstance(st, (ast.If, ast.While)):
                hdr = ast.Expr(value=st.test)
            elif isinstance(st, ast.For):
                hdr = ast.Expr(value=st.iter)
            elif isinstance(st, ast.With):
                hdr = ast.Expr(value=ast.Tuple(elts=[i.context_expr for i in st.items], ctx=ast.Load()))
            else:
                continue
            for e in classify(view, hdr):
                if e.kind in ('assign', 'remove'):
                    ctx.fail('C20.INVENTORY', f, st, hdr.value,
                             'os.environ is mutated inside a compound-statement header; not a shape the '
                             'restore analysis models')
        if sites:
            direct[f] = sites
    # module-level mutations (import time)
    for rel, m in sorted(repo.modules.items()):
        for st in m.tree.body:
            if isinstance(st, (ast.FunctionDef, ast.ClassDef, ast.AsyncFunctionDef)):
                continue
            for n in ast.walk(st):
                if isinstance(n, ast.Subscript) and isinstance(n.ctx, (ast.Store, ast.Del)) \
                        and repo.external_name(n.value, m) == 'os.environ':
                    class _F:      # minimal stand-in for reporting
                        rel = m.rel
                        qualname = '<module>'
                        node = st

                        @staticmethod
                        def digest():
                            return None

                        @staticmethod
                        def site(node=None):
                            return '%s:%s <module>' % (m.rel, getattr(node, 'lineno', '?'))

                        @staticmethod
                        def span():
                            return (st.lineno, st.end_lineno)
                    ctx.fail('C20.INVENTORY', _F, st, st, 'os.environ is mutated at import time')

    mutators = cg.closure_callers(set(direct))
    entry_scope = cg.closure_callees(set(anchors)) | cg.closure_callers(set(anchors)) | set(anchors)
    an = Analyzer(ctx, repo, cg, mutators)
    for f, sites in sorted(direct.items(), key=lambda kv: (kv[0].rel, kv[0].qualname)):
        for st, e in sites:
            fact = '%s of key %s in %s' % (e.kind, e.key, f.qualname)
            if f in entry_scope:
                ctx.ok('C20.INVENTORY', f, st, fact + ' (function is analysed by C20.RESTORE)')
            else:
                ctx.xref('C20.INVENTORY', f, st, fact + ' -- outside the call-graph scope of the C20 entry points')
    ctx.notes['mutating_functions'] = sorted('%s:%s' % (f.rel, f.qualname) for f in mutators)
    ctx.need(all(a in mutators for a in anchors),
             'an anchored entry point no longer reaches any os.environ mutation (anchors drifted): %s'
             % [a.qualname for a in anchors if a not in mutators])

    # ---- C20.RESTORE / C20.EXIT ----------------------------------------------------------
    # callees first, so that a caller whose only dirty exits are inherited from a callee that is
    # itself reported does not repeat the report (root cause only)
    scope = mutators & entry_scope
    order = []
    seen = set()

    def visit(g):
        if g in seen:
            return
        seen.add(g)
        for h in sorted(cg.callees(g), key=lambda x: (x.rel, x.qualname)):
            if h in scope:
                visit(h)
        order.append(g)
    for g in sorted(scope, key=lambda x: (x.rel, x.qualname)):
        visit(g)
    violating = set()
    for f in order:
        p = an.prepare(f)
        if p['restore_only']:
            callers = cg.callers.get(f, set())
            ctx.check('C20.RESTORE', bool(callers) and all(c in mutators for c in callers), f, f.node,
                      'restore-only helper %s: analysed in the state of its %d package caller(s) %s'
                      % (f.qualname, len(callers), sorted(c.qualname for c in callers)),
                      msg='restore-only helper has no analysed caller', construct=f.qualname)
            continue
        normal, exc, recs = an.summary(f, EMPTY)
        allowed_dirty_return = (f.rel, f.qualname) in DIRTY_RETURN_OK
        bad_recs = []
        inherited = 0
        for tag, pnode, so in recs:
            d = sorted(so[0])
            where = 'exit by %s at line %s' % (tag, pnode.lineno)
            site = pnode.stmt if pnode.stmt is not f.node else f.node
            if tag == 'return' and allowed_dirty_return:
                # dirty keys must have a valid *field* save slot that travels with the returned object
                d = [k for k in d if not any(sl[0] == 'field' and kk == k for sl, kk, _ in so[1])]
                if not d:
                    ctx.ok('C20.EXIT', f, site, '%s: %s; dirty keys %s all carry a save slot handed to the caller'
                           % (f.qualname, where, sorted(so[0])))
                    continue
            if d:
                callees = [repo.resolve_call(c, f) for c in walk_local(site) if isinstance(c, ast.Call)] \
                    if isinstance(site, ast.stmt) else []
                if any(g in violating for g in callees):
                    inherited += 1
                    continue
                bad_recs.append((tag, pnode, d))
            else:
                ctx.ok('C20.EXIT', f, site, '%s: %s with every key clean' % (f.qualname, where))
        if bad_recs or inherited:
            violating.add(f)
        if inherited and not bad_recs:
            ctx.xref('C20.RESTORE', f, f.node, '%d dirty exit edge(s) inherited from a callee that is reported itself'
                     % inherited)
            continue
        edges = []
        for t, pn, d in bad_recs:
            e = '%s at line %s [%s] leaves %s' % (t, pn.lineno,
                                                 src(pn.expr if pn.expr is not None else pn.stmt).split('\n')[0][:70],
                                                 ','.join(d))
            if e not in edges:
                edges.append(e)
        ctx.check('C20.RESTORE', not bad_recs, f, bad_recs[0][1].stmt if bad_recs else f.node,
                  '%s: every key clean at EXIT_RETURN and EXIT_RAISE (%d exit edges; cfg %s)'
                  % (f.qualname, len(recs), p['cfg'].paths_summary()),
                  msg='%s can exit with the environment modified on %d exit edge(s): %s'
                      % (f.qualname, len(edges), '; '.join(edges[:5])),
                  construct='%s leaves %s modified' % (f.qualname,
                                                      ','.join(sorted({k for _, _, d in bad_recs for k in d}))),
                  exit_edges=edges,
                  state_at_exit={k: 'dirty' for _, _, d in bad_recs for k in d})
    for f in sorted(mutators - entry_scope, key=lambda g: (g.rel, g.qualname)):
        ctx.xref('C20.RESTORE', f, f.node, 'reaches an os.environ mutation but is outside the scope of the C20 entry points')


def sweep(ctx):
    """Thorough tier: list every read of os.environ in the package as cross-reference."""
    repo = ctx.repo
    for f in repo.all_funcs():
        view = EnvView(repo, f)
        for n in walk_local(f.node):
            if isinstance(n, (ast.Subscript, ast.Call)):
                r = env_read(view, n)
                if r is not None:
                    ctx.xref('C20.READ', f, n, 'reads %s (%s)' % (r[0], 'strict' if r[1] else 'optional'))

"""C18 -- great-circle distance and SDSS great-circle coordinates are geometrically exact."""

import ast
from fractions import Fraction

from .. import AnalysisError
from ..astutil import src, call_name, dotted, walk_local, try_fold, ancestors
from ..fn import FA
from ..poly import poly_of, NotPoly, Poly

META = {
    'property': 'C18',
    'title': 'Great-circle distance and SDSS great-circle coordinates are geometrically exact',
    'technique': 'polynomial normal forms over canonical trigonometric atoms compared with the published SDSS rotation (and R*R^T = I '
                 'after sin^2 + cos^2 = 1), affine forms of the stripe formulas, exhaustive units dispatch, effect check on frame data',
    'explanation': (
        'Decided: C18.ROT - in munu_to_radec the vector handed to arctan2/arcsin equals Rx(incl) applied to '
        '(cos(mu-node)cos nu, sin(mu-node)cos nu, sin nu) and in radec_to_munu it equals Rx(incl)^T applied to '
        '(cos dec cos(ra-node), cos dec sin(ra-node), sin dec) (published SDSS convention; the suite only exercises inclination 0, '
        'where every sign error is invisible); R*R^T = I is re-derived with sin^2 + cos^2 = 1; C18.NODE - both maps subtract the '
        'node from the input longitude and add it to the output longitude, arctan2 receives (y, x), latitude is arcsin(z), incl is '
        'stripe_to_incl(stripe); C18.STRIPE - eta = 2.5*stripe - 57.5 (minus 180 above stripe 46), incl = eta + 32.5; C18.UNITS - '
        'gcirc converts all four angles in every units branch (x15 on RA for hours), branches are exhaustive with a ValueError '
        'default, the result is scaled by rad2deg*3600 exactly when units != 0; C18.HAVERSINE - sin^2(d/2) = sin^2(ddec/2) + '
        'cos dec1 cos dec2 sin^2(dra/2) and d = 2 arcsin(sqrt(.)); C18.ANG-INV - angles_to_x writes (cos phi sin theta, '
        'sin phi sin theta, cos theta), x_to_angles reads arctan2(y, x) and arccos(z/r) with no other definition of theta, both apply '
        '90 - . under latitude; C18.NOMUT - the transforms do not modify data borrowed from the input frames. C18.ASIN-CLIP - the arcsin argument of both (mu, nu) transforms is clamped to exactly [-1, 1] (np.clip / min-max; a np.where snap below 1 is reported); one-expression helpers are inlined before the haversine identity is compared, and a (1 - cos d)/2 half-angle term is reported as cancelling. C18.FLOAT-OUT - the arrays that angles_to_x / x_to_angles fill with sines, cosines and angles are not allocated in the dtype of the input (integer input would truncate every value); NOT decided: symmetry, '
        'range, accuracy over nine decades, isometry, "never NaN" (numerical).'),
    'floors': {'C18.FLOAT-OUT': 2, 'C18.ASIN-CLIP': 2, 'C18.ROT': 7, 'C18.NODE': 5, 'C18.STRIPE': 3, 'C18.UNITS': 4, 'C18.HAVERSINE': 2, 'C18.ANG-INV': 5, 'C18.NOMUT': 2},
    'trusted_base': ['published SDSS survey-coordinate convention: (mu, nu) is a rotation by the inclination about the x axis through the node'],
}

COORD = 'pydl/pydlutils/coord.py'
ASTRO = 'pydl/goddard/astro.py'
MANGLE = 'pydl/pydlutils/mangle.py'


def closure_text(e, fa, depth=0, seen=None):
    """Source of e plus the source of every definition its names resolve to (transitively)."""
    seen = seen if seen is not None else set()
    out = [src(e)]
    if depth > 6:
        return ' '.join(out)
    for n in ast.walk(e):
        if isinstance(n, ast.Name) and isinstance(n.ctx, ast.Load):
            for d, v in fa.defs(n):
                if d is None or id(d) in seen:
                    continue
                seen.add(id(d))
                if isinstance(d, ast.AugAssign):
                    out.append(src(d))
                    out.append(closure_text(d.value, fa, depth + 1, seen))
                    for d2, v2 in fa.rd.reaching(n.id, d):
                        if d2 is not None and id(d2) not in seen:
                            seen.add(id(d2))
                            if v2 is not None:
                                out.append(closure_text(v2, fa, depth + 1, seen))
                            elif isinstance(d2, ast.AugAssign):
                                out.append(src(d2))
                elif v is not None:
                    out.append(closure_text(v, fa, depth + 1, seen))
    return ' '.join(out)


def angle_class(arg, fa):
    t = closure_text(arg, fa)
    has = lambda s: s in t
    if has('.nu'):
        return 'nu'
    if has('.incl'):
        return 'i'
    if has('.mu') and has('.node'):
        return 'lon'
    if has('.ra') and has('.node'):
        return 'lon'
    if has('.dec'):
        return 'lat'
    if has('.mu') or has('.ra'):
        return 'lon-without-node'
    return None


def trig_atoms(fa):
    def atom(e):
        if isinstance(e, ast.Call) and call_name(e) in ('sin', 'cos') and e.args:
            c = angle_class(e.args[0], fa)
            if c is None:
                raise NotPoly('trigonometric argument not recognised: %s' % src(e)[:60])
            return '%s(%s)' % (call_name(e), c)
        return None
    return atom


def rot_check(ctx, repo, q, lat_name, transpose):
    f = repo.func(COORD, q)
    fa = FA(f)
    ctx.cover(f)
    at2 = [c for c in walk_local(f.node) if isinstance(c, ast.Call) and call_name(c) == 'arctan2']
    asn = [c for c in walk_local(f.node) if isinstance(c, ast.Call) and call_name(c) == 'arcsin']
    ctx.need(len(at2) == 1 and len(asn) == 1, '%s: arctan2 / arcsin calls not found' % q)
    Y, X = at2[0].args[0], at2[0].args[1]
    Z = asn[0].args[0]
    # ASIN-CLIP: the z component is a sum of products of sines and cosines; rounding can carry it to 1.0000000000000002 at the
    # pole of the great circle, where arcsin returns NaN.  It must be clamped to exactly [-1, 1] and nothing inside may change.
    clipped, why, snapped = False, 'no clamp: `%s`' % src(Z)[:50], None
    Zd = fa.deep(Z)
    for _ in range(4):
        Zd = fa.deep(Z)
        if isinstance(Zd, ast.Call) and call_name(Zd) == 'clip' and len(Zd.args) + len(Zd.keywords) >= 3:
            lo, hi = (Zd.args + [k.value for k in Zd.keywords])[1:3]
            clipped = try_fold(lo) == -1 and try_fold(hi) == 1
            why = 'clip bounds %s, %s' % (src(lo), src(hi))
            Z = Zd.args[0]
        elif isinstance(Zd, ast.Call) and call_name(Zd) in ('minimum', 'maximum') and len(Zd.args) == 2 and isinstance(Zd.args[0], ast.Call) \
                and call_name(Zd.args[0]) in ('minimum', 'maximum') and call_name(Zd.args[0]) != call_name(Zd):
            b1, b2 = try_fold(Zd.args[1]), try_fold(Zd.args[0].args[1])
            clipped = {call_name(Zd): b1, call_name(Zd.args[0]): b2} == {'minimum': 1, 'maximum': -1}
            why = 'min/max bounds %s, %s' % (b1, b2)
            Z = Zd.args[0].args[0]
        elif isinstance(Zd, ast.Call) and call_name(Zd) == 'where' and len(Zd.args) == 3:
            # np.where(|z| > c, sign(z), z): in-range values are altered unless c >= 1
            cond = Zd.args[0]
            c_ = try_fold(cond.comparators[0]) if isinstance(cond, ast.Compare) and len(cond.ops) == 1 else None
            exact = isinstance(cond, ast.Compare) and isinstance(cond.ops[0], (ast.Gt, ast.GtE)) and isinstance(c_, (int, float)) and c_ >= 1 \
                and 'sign' in src(Zd.args[1])
            if exact:
                clipped = True
                why = 'np.where clamp at |z| > %s' % c_
            else:
                snapped = 'np.where snaps |z| > %s to +-1: points within a fixed tolerance of the pole are moved onto it' % (
                    src(cond.comparators[0]) if isinstance(cond, ast.Compare) else '?')
            Z = Zd.args[2]
        else:
            break
    if snapped:
        clipped, why = False, snapped
    ctx.check('C18.ASIN-CLIP', clipped, f, asn[0], '%s: the arcsin argument is clamped to exactly [-1, 1] (%s)' % (q, why),
              msg='%s: arcsin receives %s: at the pole of a stripe\'s great circle rounding gives |z| = 1 + 2e-16 and the latitude is NaN '
                  '(or in-range values are altered by a tolerance below 1)' % (q, why), construct='%s arcsin argument: %s' % (q, src(Zd)[:70]))
    atom = trig_atoms(fa)
    try:
        px, py, pz = (poly_of(e, atom=atom, resolve=fa.resolve) for e in (X, Y, Z))
    except NotPoly as e:
        raise AnalysisError('C18: %s: rotation is not polynomial in sines and cosines: %s' % (q, e))
    A = Poly.atom
    lat = lat_name
    v = (A('cos(lon)') * A('cos(%s)' % lat), A('sin(lon)') * A('cos(%s)' % lat), A('sin(%s)' % lat))
    ci, si = A('cos(i)'), A('sin(i)')
    one, zero = Poly.const(1), Poly.const(0)
    R = [[one, zero, zero], [zero, ci, -si], [zero, si, ci]]
    if transpose:
        R = [[R[c][r] for c in range(3)] for r in range(3)]
    want = [R[r][0] * v[0] + R[r][1] * v[1] + R[r][2] * v[2] for r in range(3)]
    for name, got, w, node in (('x', px, want[0], X), ('y', py, want[1], Y), ('z', pz, want[2], Z)):
        ctx.check('C18.ROT', got == w, f, node, '%s: %s = %s  (row of Rx(incl)%s applied to the unit vector)' % (q, name, got, '^T' if transpose else ''),
                  msg='%s: the %s component is %s, the SDSS convention requires %s (a rotation by the inclination about the node axis%s)'
                      % (q, name, got, w, ', transposed' if transpose else ''), construct='%s %s = %s' % (q, name, got))
    return f, fa, at2[0], asn[0]


def check_rot(ctx, repo):
    f1, fa1, a1, s1 = rot_check(ctx, repo, 'munu_to_radec', 'nu', False)
    f2, fa2, a2, s2 = rot_check(ctx, repo, 'radec_to_munu', 'lat', True)
    # R * R^T = I with sin^2 + cos^2 = 1 (the oracle itself is a rotation)
    A = Poly.atom
    ci, si = A('cos(i)'), A('sin(i)')
    one, zero = Poly.const(1), Poly.const(0)
    R = [[one, zero, zero], [zero, ci, -si], [zero, si, ci]]
    ok = True
    for r in range(3):
        for c in range(3):
            e = Poly()
            for k in range(3):
                e = e + R[r][k] * R[c][k]
            e = e.reduce_trig([('sin(i)', 'cos(i)')])
            if e != (one if r == c else zero):
                ok = False
    ctx.check('C18.ROT', ok, f1, f1.node, 'oracle matrix is orthogonal: R*R^T = I after sin^2 + cos^2 = 1', msg='oracle not orthogonal', construct='oracle')
    # NODE
    for f, fa, at2, asn, out_lon, out_lat in ((f1, fa1, a1, s1, 'ra', 'dec'), (f2, fa2, a2, s2, 'mu', 'nu')):
        st = at2
        while not isinstance(st, ast.stmt):
            st = st._parent
        v = st.value if isinstance(st, ast.Assign) else None
        ok = isinstance(v, ast.BinOp) and isinstance(v.op, ast.Add) and src(v.right).endswith('.node') and at2 in list(ast.walk(v.left))
        ctx.check('C18.NODE', ok, f, st, '%s: output longitude = arctan2(y, x) + node' % f.qualname,
                  msg='%s: the node is not added back to the output longitude: %s' % (f.qualname, src(v)[:80] if v is not None else ''),
                  construct='%s output longitude' % f.qualname)
        # input longitude minus node: every sin/cos of a longitude has class 'lon' (not 'lon-without-node')
        bad = []
        for c in walk_local(f.node):
            if isinstance(c, ast.Call) and call_name(c) in ('sin', 'cos') and c.args:
                if angle_class(c.args[0], fa) == 'lon-without-node':
                    bad.append(c)
                elif angle_class(c.args[0], fa) == 'lon':
                    t = closure_text(c.args[0], fa)
                    # subtraction, not addition
                    if '+ munu.node' in t or '+= munu.node' in t:
                        bad.append(c)
        ctx.check('C18.NODE', not bad, f, bad[0] if bad else f.node, '%s: the node is subtracted from the input longitude before the rotation' % f.qualname,
                  msg='%s: `%s` uses the input longitude without subtracting the node' % (f.qualname, src(bad[0])[:60] if bad else ''),
                  construct='%s input longitude' % f.qualname)
    cls = repo.cls(COORD, 'SDSSMuNu')
    incl = [n for n in cls.body if isinstance(n, ast.FunctionDef) and n.name == 'incl']
    rets_i = [r for r in ast.walk(incl[0]) if isinstance(r, ast.Return)] if incl else []
    ok = bool(incl) and 'u.deg' in src(incl[0]) and bool(rets_i) and all('stripe_to_incl(self.stripe)' in src(r) for r in rets_i)
    ctx.check('C18.NODE', ok, f1, incl[0] if incl else cls, 'SDSSMuNu.incl = Angle(stripe_to_incl(self.stripe), deg)',
              msg='SDSSMuNu.incl is not stripe_to_incl(self.stripe) in degrees', construct='incl property')
    # NOMUT
    for f, fa in ((f1, fa1), (f2, fa2)):
        bad = []
        for st in walk_local(f.node):
            if isinstance(st, ast.AugAssign) and isinstance(st.target, ast.Name):
                for d, v in fa.rd.reaching(st.target.id, st):
                    if v is not None and any(isinstance(x, ast.Name) and x.id in f.params for x in ast.walk(v)) \
                            and not any(isinstance(x, ast.Call) and call_name(x) in ('copy', 'array', 'deg2rad', 'radians', 'sin', 'cos') for x in ast.walk(v)):
                        bad.append((st, v))
            if isinstance(st, (ast.Assign, ast.AugAssign)):
                for t in (st.targets if isinstance(st, ast.Assign) else [st.target]):
                    b = t
                    while isinstance(b, (ast.Subscript, ast.Attribute)):
                        b = b.value
                    if isinstance(t, (ast.Subscript, ast.Attribute)) and isinstance(b, ast.Name) and b.id in f.params:
                        bad.append((st, t))
        ctx.check('C18.NOMUT', not bad, f, bad[0][0] if bad else f.node, '%s does not modify data borrowed from its input frames' % f.qualname,
                  msg='%s modifies `%s` in place although it was obtained from an input frame (%s) without a copy: the caller\'s coordinates '
                      'change with every transform' % (f.qualname, src(bad[0][0]) if bad else '', src(bad[0][1])[:50] if bad else ''),
                  construct='%s mutates frame data: %s' % (f.qualname, src(bad[0][0]) if bad else ''))


def check_stripe(ctx, repo):
    f = repo.func(COORD, 'stripe_to_eta')
    fa = FA(f)
    g = repo.func(COORD, 'stripe_to_incl')
    ga = FA(g)
    ctx.cover(f, g)
    eta = [st for st in walk_local(f.node) if isinstance(st, ast.Assign) and src(st.targets[0]) == 'eta']
    ctx.need(eta, 'stripe_to_eta: eta definition not found')
    p = poly_of(eta[0].value, resolve=fa.resolve)
    want = Poly.atom('stripe').scale(Fraction(5, 2)) - Poly.const(Fraction(115, 2))
    ctx.check('C18.STRIPE', p == want, f, eta[0], 'eta = 2.5*stripe - 57.5 [%s]' % p, msg='eta = %s, expected 2.5*stripe - 57.5' % p, construct='eta = %s' % p)
    corr = [st for st in walk_local(f.node) if isinstance(st, ast.AugAssign) and src(st.target) == 'eta']
    ok = len(corr) == 1 and isinstance(corr[0].op, ast.Sub) and try_fold(corr[0].value) == 180.0 and isinstance(corr[0]._parent, ast.If) \
        and src(corr[0]._parent.test) in ('stripe > 46', '46 < stripe')
    ctx.check('C18.STRIPE', ok, f, corr[0] if corr else f.node, 'eta -= 180 exactly when stripe > 46', msg='the southern-stripe correction is not `eta -= 180 if stripe > 46`', construct='southern correction')
    rets = [r for r in walk_local(g.node) if isinstance(r, ast.Return)]

    def at(e):
        if isinstance(e, ast.Call) and call_name(e) == 'stripe_to_eta' and src(e.args[0]) == 'stripe':
            return 'eta'
        return None
    p2 = poly_of(rets[0].value, atom=at, resolve=ga.resolve)
    ctx.check('C18.STRIPE', p2 == Poly.atom('eta') + Poly.const(Fraction(65, 2)), g, rets[0], 'incl = stripe_to_eta(stripe) + 32.5 [%s]' % p2,
              msg='incl = %s, expected stripe_to_eta(stripe) + 32.5' % p2, construct='incl = %s' % p2)


def check_gcirc(ctx, repo):
    f = repo.func(ASTRO, 'gcirc')
    fa = FA(f)
    ctx.cover(f)
    # units dispatch
    top = [n for n in f.node.body if isinstance(n, ast.If) and 'units' in src(n.test)]
    ctx.need(top, 'gcirc: units dispatch not found')
    chain = top[0]
    branches = []
    node = chain
    while True:
        branches.append((try_fold(node.test.comparators[0]) if isinstance(node.test, ast.Compare) else None, node.body))
        if len(node.orelse) == 1 and isinstance(node.orelse[0], ast.If):
            node = node.orelse[0]
        else:
            default = node.orelse
            break
    ctx.check('C18.UNITS', sorted(b[0] for b in branches) == [0, 1, 2] and default and isinstance(default[-1], ast.Raise) and 'ValueError' in src(default[-1]), f, chain,
              'units dispatch covers 0, 1, 2 and raises ValueError otherwise', msg='units dispatch is not exhaustive over 0, 1, 2 with a ValueError default', construct='units dispatch')
    want = {0: {'rarad1': 'ra1', 'dcrad1': 'dec1', 'rarad2': 'ra2', 'dcrad2': 'dec2'},
            1: {'rarad1': 'np.deg2rad(15.0 * ra1)', 'dcrad1': 'np.deg2rad(dec1)', 'rarad2': 'np.deg2rad(15.0 * ra2)', 'dcrad2': 'np.deg2rad(dec2)'},
            2: {'rarad1': 'np.deg2rad(ra1)', 'dcrad1': 'np.deg2rad(dec1)', 'rarad2': 'np.deg2rad(ra2)', 'dcrad2': 'np.deg2rad(dec2)'}}
    for u, body in branches:
        got = {src(st.targets[0]): src(st.value) for st in body if isinstance(st, ast.Assign)}
        ctx.check('C18.UNITS', got == want.get(u), f, body[0], 'units=%s converts all four angles: %s' % (u, got),
                  msg='units=%s branch converts %s, expected %s' % (u, got, want.get(u)), construct='units=%s conversions' % (u,))
    rets = [r for r in walk_local(f.node) if isinstance(r, ast.Return) and r.value is not None]
    ok = len(rets) == 2
    if ok:
        r0 = [r for r in rets if isinstance(r._parent, ast.If) and r in r._parent.body]
        r1 = [r for r in rets if r not in r0]
        ok = bool(r0) and src(r0[0]._parent.test) == 'units == 0' and src(r0[0].value) == 'dis' and bool(r1) and src(r1[0].value).replace(' ', '') == 'np.rad2deg(dis)*3600.0'
    ctx.check('C18.UNITS', ok, f, rets[0] if rets else f.node, 'radians are returned for units=0, arcseconds (rad2deg*3600) otherwise',
              msg='the result scaling is not `dis` for units=0 and np.rad2deg(dis)*3600 otherwise', construct='result scaling')
    # haversine
    sq = [c for c in walk_local(f.node) if isinstance(c, ast.Call) and call_name(c) == 'sqrt']
    hyp = [c for c in walk_local(f.node) if isinstance(c, ast.Call) and call_name(c) == 'hypot' and len(c.args) == 2]
    if not sq and hyp:
        # np.hypot(a, b) is sqrt(a*a + b*b)
        a_, b_ = hyp[0].args
        rad = ast.BinOp(left=ast.BinOp(left=a_, op=ast.Mult(), right=a_), op=ast.Add(), right=ast.BinOp(left=b_, op=ast.Mult(), right=b_))
        fake = ast.Call(func=hyp[0].func, args=[rad], keywords=[])
        ast.copy_location(fake, hyp[0])
        ast.fix_missing_locations(fake)
        fake._parent = getattr(hyp[0], '_parent', None)
        sq = [fake]
    ctx.need(sq, 'gcirc: sqrt of the haversine not found')

    def base(e):
        return poly_of(e, resolve=lambda n: None if n.id in ('rarad1', 'rarad2', 'dcrad1', 'dcrad2') else fa.resolve(n))

    def atom(e):
        if isinstance(e, ast.Call) and call_name(e) in ('sin', 'cos') and e.args:
            p = base(e.args[0])
            # canonical sign for sin^2 / cos (even uses only): make the first coefficient positive
            items = sorted(p.t.items())
            if items and items[0][1] < 0:
                p = -p
            return '%s(%s)' % (call_name(e), p)
        return None
    from ..inline import inline_calls
    radicand = fa.deep(sq[0].args[0]) if isinstance(sq[0].args[0], ast.Name) else sq[0].args[0]

    def resolve_inl(n):
        d = fa.resolve(n)
        return inline_calls(d, repo, f) if d is not None else None
    try:
        p = poly_of(inline_calls(radicand, repo, f), atom=atom, resolve=resolve_inl)
    except NotPoly as e:
        raise AnalysisError('C18: gcirc haversine is not polynomial: %s' % e)
    A = Poly.atom
    h = Fraction(1, 2)
    dd = Poly.atom('dcrad1').scale(-h) + Poly.atom('dcrad2').scale(h)
    dr = Poly.atom('rarad1').scale(-h) + Poly.atom('rarad2').scale(h)

    def canon(pp):
        items = sorted(pp.t.items())
        return -pp if items and items[0][1] < 0 else pp
    sd, sr = 'sin(%s)' % canon(dd), 'sin(%s)' % canon(dr)
    want = A(sd) * A(sd) + A('cos(dcrad1)') * A('cos(dcrad2)') * A(sr) * A(sr)
    cancel = [str(k) for k in p.t for a_ in (k if isinstance(k, tuple) else (k,)) if str(a_).startswith('cos(') and
              (('dcrad1' in str(a_) and 'dcrad2' in str(a_)) or ('rarad1' in str(a_) and 'rarad2' in str(a_)))]
    ctx.check('C18.HAVERSINE', p == want, f, sq[0], 'sin^2(d/2) = sin^2(ddec/2) + cos(dec1) cos(dec2) sin^2(dra/2)',
              msg=('the haversine radicand is %s: a half-angle term is computed as (1 - cos d)/2, which cancels catastrophically for small d '
                   '(relative error 4e-4 at 0.1 arcsec, distance exactly 0 below a few mas); sin(d/2)**2 is required' % p) if cancel else
                  ('the haversine radicand is %s; the great-circle identity requires %s' % (p, want)), construct='haversine %s' % p)
    d = [st for st in walk_local(f.node) if isinstance(st, ast.Assign) and src(st.targets[0]) == 'dis']
    ok = bool(d) and src(d[0].value).replace(' ', '') in ('2.0*np.arcsin(sindis)', '2*np.arcsin(sindis)') and src(sq[0]._parent.targets[0]) == 'sindis'
    ctx.check('C18.HAVERSINE', ok, f, d[0] if d else f.node, 'd = 2 arcsin(sqrt(.))', msg='the distance is not 2*arcsin(sqrt(haversine))', construct='distance from haversine')


def check_ang_inv(ctx, repo):
    f = repo.func(MANGLE, 'angles_to_x')
    fa = FA(f)
    g = repo.func(MANGLE, 'x_to_angles')
    ga = FA(g)
    ctx.cover(f, g)

    def atom(e):
        if isinstance(e, ast.Call) and call_name(e) in ('sin', 'cos') and e.args and isinstance(e.args[0], ast.Name):
            return '%s(%s)' % (call_name(e), e.args[0].id)
        return None
    comps = {}
    for st in walk_local(f.node):
        if isinstance(st, ast.Assign) and isinstance(st.targets[0], ast.Subscript) and src(st.targets[0].value) == 'x':
            k = try_fold(st.targets[0].slice.elts[1]) if isinstance(st.targets[0].slice, ast.Tuple) else None
            comps[k] = poly_of(st.value, atom=atom, resolve=fa.resolve)
    A = Poly.atom
    want = {0: A('cos(phi)') * A('sin(theta)'), 1: A('sin(phi)') * A('sin(theta)'), 2: A('cos(theta)')}
    ctx.check('C18.ANG-INV', comps == want, f, f.node, 'angles_to_x writes (cos phi sin theta, sin phi sin theta, cos theta)',
              msg='angles_to_x components are %s' % comps, construct='angles_to_x components')
    th = [st for st in walk_local(f.node) if isinstance(st, ast.Assign) and src(st.targets[0]) == 'theta']
    forms = {}
    for st in th:
        under = isinstance(st._parent, ast.If) and src(st._parent.test) == 'latitude' and st in st._parent.body
        forms['lat' if under else 'colat'] = src(st.value).replace(' ', '')
    ctx.check('C18.ANG-INV', forms == {'lat': 'np.radians(90.0-points[:,1])', 'colat': 'np.radians(points[:,1])'}, f, th[0] if th else f.node,
              'theta = radians(90 - lat) under latitude, radians(colat) otherwise', msg='angles_to_x theta forms: %s' % forms, construct='angles_to_x theta')
    phi = [st for st in walk_local(g.node) if isinstance(st, ast.Assign) and src(st.targets[0]) == 'phi']
    ok = len(phi) == 1 and src(phi[0].value).replace(' ', '') == 'np.degrees(np.arctan2(points[:,1],points[:,0]))'
    ctx.check('C18.ANG-INV', ok, g, phi[0] if phi else g.node, 'x_to_angles: phi = degrees(arctan2(y, x))', msg='phi is not degrees(arctan2(points[:,1], points[:,0]))', construct='x_to_angles phi')
    # every definition / store of theta
    defs = []
    for st in walk_local(g.node):
        if isinstance(st, (ast.Assign, ast.AugAssign)):
            for t in (st.targets if isinstance(st, ast.Assign) else [st.target]):
                b = t
                while isinstance(b, ast.Subscript):
                    b = b.value
                if isinstance(b, ast.Name) and b.id == 'theta':
                    defs.append((st, t))
    bad = []
    saw_acos = False
    for st, t in defs:
        s = src(st.value).replace(' ', '')
        if isinstance(t, ast.Subscript):
            bad.append(st)
        elif 'arccos(points[:,2]/r)' in s:
            saw_acos = True
        elif s in ('90.0-theta', 'np.degrees(theta)', 'np.rad2deg(theta)'):
            pass
        else:
            bad.append(st)
    ctx.check('C18.ANG-INV', saw_acos and not bad, g, bad[0] if bad else (defs[0][0] if defs else g.node),
              'x_to_angles: theta is arccos(z/r) everywhere (then degrees, then 90 - theta under latitude)',
              msg='x_to_angles overrides theta with `%s`: a formula that does not depend on the sign of z maps the southern hemisphere onto the northern one'
                  % (src(bad[0])[:70] if bad else 'nothing'), construct='theta definitions: %s' % [src(s)[:50] for s, _ in defs])
    lat = [st for st, t in defs if src(st.value).replace(' ', '') == '90.0-theta']
    ok = len(lat) == 1 and isinstance(lat[0]._parent, ast.If) and src(lat[0]._parent.test) == 'latitude'
    ctx.check('C18.ANG-INV', ok, g, lat[0] if lat else g.node, 'x_to_angles applies 90 - theta under latitude', msg='latitude flip missing', construct='x_to_angles latitude')


def run(ctx):
    from .floatlib import check_float_alloc
    check_float_alloc(ctx, ctx.repo, 'C18.FLOAT-OUT', [(MANGLE, 'angles_to_x'), (MANGLE, 'x_to_angles')],
                      'whole-number angles (or integer unit vectors) convert to truncated coordinates and the two conversions are no longer inverses')
    check_rot(ctx, ctx.repo)
    check_stripe(ctx, ctx.repo)
    check_gcirc(ctx, ctx.repo)
    check_ang_inv(ctx, ctx.repo)

"""Rule functions over pydl/pydlutils/spheregroup.py shared by C04 and C05."""

import ast

from .. import AnalysisError
from ..astutil import src, call_name, dotted, walk_local, try_fold, ancestors, canon, enclosing_stmt, kwarg
from ..fn import FA, expand
from ..normal import canon_expr
from .. import minieval

SG = 'pydl/pydlutils/spheregroup.py'


def assign_of(fn, name):
    return [st for st in walk_local(fn) if isinstance(st, ast.Assign) and src(st.targets[0]) == name]


def check_cell_agree(ctx, repo, rule):
    g = repo.func(SG, 'chunks.get')
    b = repo.func(SG, 'chunks.getbounds')
    ctx.cover(g, b)
    gd = assign_of(g.node, 'decChunk')
    bd = assign_of(b.node, 'decChunkMin')
    ctx.need(gd and bd, 'chunks.get / getbounds: declination slice formula not found')
    c1, _ = canon(expand(gd[0].value, FA(g), depth=4), extra=('self', 'np', 'int', 'float'))
    c2, _ = canon(expand(bd[0].value, FA(b), depth=4), extra=('self', 'np', 'int', 'float'))
    ctx.check(rule, c1 == c2, g, gd[0], 'declination slice: lookup (get) and insertion (getbounds) use the same formula',
              msg='a first-list point is looked up in a declination slice computed as `%s` while second-list points were entered with `%s`'
                  % (src(gd[0].value)[:70], src(bd[0].value)[:70]), construct='dec slice formulas')
    gr = assign_of(g.node, 'raChunk')
    gr = [st for st in gr if 'floor' in src(st.value)]
    br = [st for st in walk_local(b.node) if isinstance(st, ast.Assign) and src(st.targets[0]).startswith('raChunkMin[') and 'floor' in src(expand(st.value, FA(b), depth=4))]
    ctx.need(gr and br, 'chunks.get / getbounds: RA cell formula not found')
    c1, _ = canon(expand(gr[0].value, FA(g), depth=4), extra=('self', 'np', 'int', 'float'))
    c2, _ = canon(expand(br[0].value, FA(b), depth=4), extra=('self', 'np', 'int', 'float'))
    ctx.check(rule, c1 == c2, g, gr[0], 'RA cell: lookup (get) and insertion (getbounds) use the same formula modulo the slice index',
              msg='a first-list point is looked up in an RA cell computed as `%s` while second-list points were entered with `%s`'
                  % (src(gr[0].value)[:70], src(br[0].value)[:70]), construct='RA cell formulas')


def check_rot_agree(ctx, repo, rule):
    n = 0
    layout = repo.func(SG, 'chunks.getraminmax')
    l = assign_of(layout.node, 'currRa')
    ctx.need(l, 'chunks.getraminmax: rotated RA not found')
    want, _ = canon(l[0].value, extra=('np',))
    for q in ('chunks.assign', 'spherematch'):
        f = repo.func(SG, q)
        fa = FA(f)
        ctx.cover(f)
        for c in walk_local(f.node):
            if isinstance(c, ast.Call) and isinstance(c.func, ast.Attribute) and c.func.attr in ('get', 'getbounds') and len(c.args) >= 2 \
                    and (src(c.func.value) in ('self', 'chunk')):
                ra = fa.deep(c.args[0])
                s = src(ra).replace(' ', '')
                ok = isinstance(ra, ast.Call) and call_name(ra) == 'fmod' and try_fold(ra.args[1]) == 360.0 and 'raOffset' in s and '+' in s
                n += 1
                ctx.check(rule, ok, f, c, '%s: RA passed to %s is fmod(ra + raOffset, 360) [%s]' % (q, c.func.attr, src(ra)[:50]),
                          msg='%s passes `%s` to chunks.%s: the RA is not rotated by raOffset modulo 360 as the cell layout was' % (q, src(ra)[:50], c.func.attr),
                          construct='%s RA argument %s' % (q, src(ra)[:50]))
    return n


def _conjuncts(t):
    t = canon_expr(t)
    return list(t.values) if isinstance(t, ast.BoolOp) and isinstance(t.op, ast.And) else [t]


def _cell_of(e):
    """(base, dec index, ra index) of a two-level cell subscript base[D][R]."""
    if isinstance(e, ast.Subscript) and isinstance(e.value, ast.Subscript):
        return e.value.value, e.value.slice, e.slice
    return None


def check_dedup_wrap(ctx, repo, rule):
    f = repo.func(SG, 'chunks.assign')
    fa = FA(f)
    apps = [c for c in walk_local(f.node) if isinstance(c, ast.Call) and call_name(c) == 'append' and _cell_of(c.func.value) is not None
            and 'chunkList' in src(_cell_of(c.func.value)[0])]
    ctx.need(apps, 'chunks.assign: insertion into chunkList not found')
    sites = []           # (statement, cell index expression, innermost loop, what)
    for c in apps:
        base, D, R = _cell_of(c.func.value)
        # the already-entered flag: a conjunct `not FLAG[D][R]` on the way to the append, FLAG[D][R] = True in the guarded region
        guard = flag = None
        child = c
        for a in ancestors(c):
            if isinstance(a, ast.If) and any(child is x or child in list(ast.walk(x)) for x in a.body):
                for cj in _conjuncts(a.test):
                    if isinstance(cj, ast.UnaryOp) and isinstance(cj.op, ast.Not) and _cell_of(cj.operand) is not None:
                        b2, d2, r2 = _cell_of(cj.operand)
                        if src(d2) == src(D) and src(r2) == src(R) and isinstance(b2, ast.Name):
                            guard, flag = a, cj.operand
            if isinstance(a, (ast.For, ast.While)):
                break
            child = a
        set_guard = None
        if guard is None:
            # alternative idiom: a per-point set of the cells already entered:  if (D, R) not in seen: ...; seen.add((D, R))
            child = c
            for a in ancestors(c):
                if isinstance(a, ast.If) and any(child is x or child in list(ast.walk(x)) for x in a.body):
                    for cj in _conjuncts(a.test):
                        if isinstance(cj, ast.Compare) and len(cj.ops) == 1 and isinstance(cj.ops[0], ast.NotIn) and isinstance(cj.left, ast.Tuple) \
                                and [src(e) for e in cj.left.elts] == [src(D), src(R)] and isinstance(cj.comparators[0], ast.Name):
                            seen = cj.comparators[0]
                            adds = [x for x in walk_local(a) if isinstance(x, ast.Call) and call_name(x) == 'add' and isinstance(x.func.value, ast.Name)
                                    and x.func.value.id == seen.id and x.args and isinstance(x.args[0], ast.Tuple)
                                    and [src(e) for e in x.args[0].elts] == [src(D), src(R)]]
                            # the set must be the point's own: created inside the loop over the points, outside the loops over the cells
                            orig = next((x for x in walk_local(f.node) if isinstance(x, ast.Name) and x.id == seen.id and isinstance(x.ctx, ast.Load)), None)
                            fresh = [d for d, v in fa.defs(orig) if d is not None] if orig is not None else []
                            loops_c = [l for l in ancestors(c) if isinstance(l, ast.For)]
                            per_point = bool(fresh) and all(isinstance(d, ast.Assign) and ((isinstance(d.value, ast.Call) and call_name(d.value) == 'set' and not d.value.args)
                                                                                          or (isinstance(d.value, ast.Set) and not d.value.elts))
                                                            and loops_c and any(d in l.body for l in loops_c[-1:]) for d in fresh)
                            if adds and per_point:
                                set_guard = a
                if isinstance(a, (ast.For, ast.While)):
                    break
                child = a
        if set_guard is not None:
            ctx.check(rule, True, f, c, 'a point is entered at most once per cell: append guarded by a per-point set of the cells already entered')
            st = c
            while not isinstance(st, ast.stmt):
                st = st._parent
            loop = next((a for a in ancestors(c) if isinstance(a, ast.For)), None)
            sites.append((st, R, D, loop, 'insertion into the cell list'))
            continue
        set_done = None
        if guard is not None:
            for st in walk_local(guard):
                if isinstance(st, ast.Assign) and len(st.targets) == 1 and src(st.targets[0]) == src(flag) and try_fold(st.value) is True \
                        and any(st is x or st in list(ast.walk(x)) for x in guard.body):
                    set_done = st
        ctx.check(rule, guard is not None and set_done is not None, f, c,
                  'a point is entered at most once per cell: append guarded by `not %s`, which is then set' % (src(flag) if flag is not None else '?'),
                  msg='chunks.assign appends the point to a cell without the already-entered test: when the wrapped cell range aliases (few RA cells, '
                      'polar slices) the point is listed several times and each of its pairs is returned several times', construct='unguarded cell insertion')
        st = c
        while not isinstance(st, ast.stmt):
            st = st._parent
        loop = next((a for a in ancestors(c) if isinstance(a, ast.For)), None)
        sites.append((st, R, D, loop, 'insertion into the cell list'))
        if flag is not None:
            for x in walk_local(f.node):
                if isinstance(x, ast.Assign) and len(x.targets) == 1 and _cell_of(x.targets[0]) is not None \
                        and src(_cell_of(x.targets[0])[0]) == src(_cell_of(flag)[0]) and isinstance(x.value, ast.Constant):
                    lp = next((a for a in ancestors(x) if isinstance(a, ast.For)), None)
                    sites.append((x, _cell_of(x.targets[0])[2], _cell_of(x.targets[0])[1], lp,
                                  'the already-entered flag is %s' % ('set' if x.value.value else 'cleared')))
    # wrap arithmetic, decided by enumeration: for n RA cells (n = 1..5) and every raw cell number r the margin loops can produce
    # (-2 .. n+1) each site must address cell r mod n, and must be reached
    for st, R, D, loop, what in sites:
        ctx.need(loop is not None and isinstance(loop.target, ast.Name), 'chunks.assign: loop over raw RA cell numbers not found')
        rvar = loop.target.id
        nkeys = {src(x).replace(' ', '') for x in walk_local(loop) if isinstance(x, ast.Subscript) and isinstance(x.ctx, ast.Load)
                 and src(x.value).replace(' ', '') == 'self.nRa' and src(x.slice) == src(D)}
        ctx.need(nkeys, 'chunks.assign: number of RA cells of the slice (self.nRa[%s]) not used in the loop' % src(D))
        bad = None
        try:
            for n in range(1, 6):
                for r in range(-2, n + 2):
                    seen = []

                    def on_stmt(s_, env, seen=seen, st=st, R=R):
                        if s_ is st:
                            seen.append(minieval.ev(R, env, opaque))
                    opaque = {k: n for k in nkeys}
                    minieval.run(loop.body, {rvar: r}, opaque, on_stmt)
                    if seen != [r % n] and bad is None:
                        bad = (n, r, seen)
        except minieval.Unknown as e:
            raise AnalysisError('C04/C05: the RA wrap arithmetic of chunks.assign is not an idiom the index evaluator understands (%s)' % e)
        ctx.check(rule, bad is None, f, st, 'cells below 0 / above nRa-1 wrap around the RA circle where %s (all raw cell numbers -2..n+1, n = 1..5 cells, '
                  'reach cell r mod n: `%s`)' % (what, src(R)),
                  msg='the RA wrap of out-of-range cell numbers in chunks.assign is wrong where %s: with %s RA cells the raw cell number %s addresses %s '
                      'instead of cell %s' % (what, bad[0] if bad else '', bad[1] if bad else '',
                                              ('cell(s) %s' % bad[2]) if bad and bad[2] else 'no cell', (bad[1] % bad[0]) if bad else ''),
                  construct='assign wrap arithmetic')
    # getbounds margin loops may step outside [0, nRa-1] so that assign can wrap them
    g = repo.func(SG, 'chunks.getbounds')
    ga = FA(g)
    # decided by interpretation: with n RA cells and the margin test assumed true as long as it is evaluated (a point within the margin
    # of every edge), the lower loop started in any cell 0..n-1 must end at -1 and the upper loop at n
    loops = []
    for n_ in walk_local(g.node):
        if isinstance(n_, ast.While):
            steps_ = [st for st in walk_local(n_) if isinstance(st, ast.AugAssign) and isinstance(st.target, ast.Name) and try_fold(st.value) == 1
                      and isinstance(st.op, (ast.Add, ast.Sub))]
            if len(steps_) == 1 and any(isinstance(x, ast.Attribute) and x.attr == 'raBounds' for x in ast.walk(expand(n_.test, ga, depth=4))) or \
                    (len(steps_) == 1 and any(isinstance(x, ast.Attribute) and x.attr == 'raBounds' for st in walk_local(n_) for x in ast.walk(st))):
                loops.append((n_, steps_[0]))
    ctx.need(len(loops) == 2, 'chunks.getbounds: RA margin loops not found')
    for lp, step in loops:
        down = isinstance(step.op, ast.Sub)
        var = step.target.id
        blk = lp._parent.body if lp in getattr(lp._parent, 'body', []) else None
        ctx.need(blk is not None, 'chunks.getbounds: RA margin loop is not in a plain block')
        k0 = blk.index(lp)
        # statements between the initialisation of the walking index and the loop (flags such as keepGoing = True)
        j = k0 - 1
        while j >= 0 and not (isinstance(blk[j], ast.Assign) and len(blk[j].targets) == 1 and isinstance(blk[j].targets[0], ast.Name) and blk[j].targets[0].id == var):
            j -= 1
        pre = blk[j + 1:k0] if j >= 0 else []

        def size_names():
            out = {}
            for x in walk_local(g.node):
                if isinstance(x, ast.Name) and isinstance(x.ctx, ast.Load):
                    v = ga.resolve(x)
                    if v is not None and isinstance(v, ast.Subscript) and isinstance(v.value, ast.Attribute) and v.value.attr == 'nRa':
                        out[x.id] = True
            return out
        snames = size_names()
        bad = None
        try:
            for n in range(1, 5):
                for r0 in range(0, n):
                    opaque = {'__assume__': lambda e: True}
                    for x in walk_local(g.node):
                        if isinstance(x, ast.Subscript) and isinstance(x.value, ast.Attribute) and x.value.attr == 'nRa':
                            opaque[src(x).replace(' ', '')] = n
                    env = {var: r0}
                    for nm in snames:
                        env[nm] = n
                    env = minieval.run(pre, env, opaque, lambda s_, e_: None) or env
                    end = minieval.run_while(lp, env, opaque)
                    if end.get(var) != (-1 if down else n) and bad is None:
                        bad = (n, r0, end.get(var))
        except minieval.Unknown as e:
            raise AnalysisError('C04/C05: the RA margin loop of chunks.getbounds is not an idiom the index evaluator understands (%s)' % e)
        what = ('lower margin loop can step to cell -1 (wrapped into the last cell by assign)' if down
                else 'upper margin loop can step to cell nRa (wrapped into cell 0 by assign)')
        ctx.check(rule, bad is None, g, lp, 'getbounds: %s [`%s`]' % (what, src(lp.test)[:60]),
                  msg='getbounds: the %s margin loop `%s` started in cell %s of %s ends at %s, not at %s, although the point is within the margin of every edge: '
                      'a point within the margin of the %s edge of the RA range is never entered in the wrapped cell, so pairs straddling RA 0/360 are missed'
                      % ('lower' if down else 'upper', src(lp.test)[:50], bad[1] if bad else '', bad[0] if bad else '', bad[2] if bad else '',
                         '-1' if down else 'nRa', 'lower' if down else 'upper'),
                  construct='margin loop bound %s' % src(lp.test)[:50])
    # the declination range is widened slice by slice for as long as the margin reaches the next slice (a loop, not a single step:
    # slices near a clamped pole edge are narrower than the nominal size)
    steps = [st for st in walk_local(g.node) if isinstance(st, ast.AugAssign) and isinstance(st.target, ast.Name) and try_fold(st.value) == 1
             and isinstance(st.op, (ast.Add, ast.Sub)) and any(isinstance(x, ast.Subscript) and isinstance(x.value, ast.Attribute) and x.value.attr == 'decBounds'
                                                                for a in ancestors(st) if isinstance(a, (ast.While, ast.If)) for x in ast.walk(a.test))]
    for st in steps:
        holder = next((a for a in ancestors(st) if isinstance(a, (ast.While, ast.If, ast.For))), None)
        ctx.check(rule, isinstance(holder, ast.While), g, st, 'getbounds: the declination range is widened in a loop (`%s`) while the margin reaches the next slice' % src(st),
                  msg='getbounds widens the declination range by `%s` at most once (under `%s`, not in a loop): a point whose margin reaches across more than one '
                      'narrow declination slice is not entered in the farther slices and pairs across them are missed'
                      % (src(st), src(holder.test)[:60] if holder is not None and hasattr(holder, 'test') else ''), construct='declination margin step ' + src(st))
    for nm in ('raChunkMin', 'raChunkMax'):
        fin = [st for st in walk_local(g.node) if isinstance(st, ast.Assign) and src(st.targets[0]).startswith(nm + '[') and 'floor' not in src(st.value)
               and not src(st.value).startswith('raChunkMin[')]
        ok = bool(fin) and all(src(st.value) == 'raCheck' for st in fin)
        ctx.check(rule, ok, g, fin[0] if fin else g.node, 'getbounds: %s is the unclamped loop result (may be -1 / nRa)' % nm,
                  msg='getbounds clamps %s (`%s`): the out-of-range cell numbers that chunks.assign wraps across RA 0/360 are lost and friends across the '
                      'seam are never compared' % (nm, src(fin[0].value) if fin else '?'), construct='%s = %s' % (nm, src(fin[0].value) if fin else '?'))


def check_seam(ctx, repo, rule):
    """The RA rotation is accepted only if it keeps every point at least minSize from 0 and 360; a slice that cannot avoid the seam
    spans the full circle.  (Two cooperating guards: dropping either one alone is harmless, dropping both loses points at the seam.)"""
    f = repo.func(SG, 'chunks.rarange')
    g = repo.func(SG, 'chunks.__init__')
    ctx.cover(f, g)
    acc = [n for n in walk_local(f.node) if isinstance(n, ast.If) and 'raRangeMin' in src(n.test)]
    ctx.need(acc, 'chunks.rarange: acceptance test not found')
    cmp1 = {src(c).replace(' ', '') for c in ast.walk(acc[0].test) if isinstance(c, ast.Compare)}
    guard1 = {'raMin>minSize', 'raMax<360.0-minSize'} <= cmp1 or {'minSize<raMin', '360.0-minSize>raMax'} <= cmp1
    emb = [n for n in walk_local(g.node) if isinstance(n, ast.If) and 'raRangeTmp >= 360.0' in src(n.test)]
    ctx.need(emb, 'chunks.__init__: full-circle test not found')
    cmp2 = {src(c).replace(' ', '') for c in ast.walk(emb[0].test) if isinstance(c, ast.Compare)}
    guard2 = {'raMinTmp<=minSize/cosDecMin', 'raMaxTmp>=360.0-minSize/cosDecMin'} <= cmp2
    ctx.check(rule, guard1 or guard2, f, acc[0],
              'the RA seam is kept away from the data: rotation accepted only with a minSize clearance (%s) / slices that reach the seam span the full circle (%s)'
              % (guard1, guard2),
              msg='neither chunks.rarange (clearance raMin > minSize and raMax < 360 - minSize) nor chunks.__init__ (slice within minSize of 0/360 spans the '
                  'full circle) keeps the RA seam away from the cells: points whose rotated RA falls just below 360 are skipped by assign()',
              construct='seam guards: rarange=%s init=%s' % (guard1, guard2))


def _x(e, fa):
    """e with single-definition temporaries expanded, in canonical spelling (for matching only)."""
    return canon_expr(expand(e, fa, depth=6, calls=True))


def _xs(e, fa):
    return src(_x(e, fa)).replace(' ', '')


def _cmp_lt(c):
    """(left, op, right) of a two-operand comparison, written with < or <= ; None otherwise."""
    if not (isinstance(c, ast.Compare) and len(c.ops) == 1):
        return None
    op = c.ops[0]
    if isinstance(op, (ast.Lt, ast.LtE)):
        return c.left, type(op), c.comparators[0]
    if isinstance(op, (ast.Gt, ast.GtE)):
        return c.comparators[0], ast.Lt if isinstance(op, ast.Gt) else ast.LtE, c.left
    return None


def _size_of(e):
    """X of X.size / len(X) / X.shape[0]."""
    if isinstance(e, ast.Attribute) and e.attr == 'size':
        return e.value
    if isinstance(e, ast.Call) and call_name(e) == 'len' and len(e.args) == 1:
        return e.args[0]
    if isinstance(e, ast.Subscript) and isinstance(e.value, ast.Attribute) and e.value.attr == 'shape' and try_fold(e.slice) == 0:
        return e.value.value
    return None


def _empty_list(v):
    return (isinstance(v, ast.Call) and call_name(v) == 'list' and not v.args) or (isinstance(v, ast.List) and not v.elts)


def _np_call(e, names):
    return isinstance(e, ast.Call) and call_name(e) in names


def check_spherematch(ctx, repo):
    f = repo.func(SG, 'spherematch')
    fa = FA(f)
    P = f.params
    ctx.need(len(P) >= 7, 'spherematch: parameter list changed')
    ra1, dec1, ra2, dec2, mlen, csz, maxmatch = P[:7]
    # ------------------------------------------------------------------ the pair accumulation site
    apps = [c for c in walk_local(f.node) if isinstance(c, ast.Call) and call_name(c) == 'append' and isinstance(c.func, ast.Attribute)
            and isinstance(c.func.value, ast.Name) and len(c.args) == 1 and any(isinstance(a, ast.For) for a in ancestors(c))
            and any(v is not None and _empty_list(v) for d, v in fa.defs(c.func.value))]
    if not (len(apps) == 3 and len({c.func.value.id for c in apps}) == 3 and len({id(enclosing_stmt(c)._parent) for c in apps}) == 1):
        raise AnalysisError('C04: spherematch does not accumulate its pairs by three lockstep appends (i, k, separation): not an idiom this checker can judge')
    sep_apps = [c for c in apps if any(isinstance(x, ast.Call) and call_name(x) == 'gcirc' for x in ast.walk(_x(c.args[0], fa)))]
    if len(sep_apps) != 1:
        raise AnalysisError('C04: the separation appended by spherematch is not computed by gcirc: geometry this checker cannot judge')
    sep_app = sep_apps[0]
    sepx = _x(sep_app.args[0], fa)
    gcs = [x for x in ast.walk(sepx) if isinstance(x, ast.Call) and call_name(x) == 'gcirc']
    gc = gcs[0]
    units = try_fold(kwarg(gc, 'units', 4))
    factor = None
    if sepx is gc:
        factor = 1.0
    elif isinstance(sepx, ast.BinOp) and sepx.left is gc and isinstance(sepx.op, ast.Div) and isinstance(try_fold(sepx.right), (int, float)) and try_fold(sepx.right):
        factor = 1.0 / try_fold(sepx.right)
    elif isinstance(sepx, ast.BinOp) and isinstance(sepx.op, ast.Mult) and (sepx.left is gc or sepx.right is gc):
        o = try_fold(sepx.right if sepx.left is gc else sepx.left)
        factor = o if isinstance(o, (int, float)) else None
    if units is None or factor is None:
        raise AnalysisError('C04: the unit conversion of the separation in spherematch (`%s`) is not an idiom this checker can judge' % src(sepx)[:80])
    args = [kwarg(gc, nm, i) for i, nm in enumerate(('ra1', 'dec1', 'ra2', 'dec2'))]
    shape_ok = all(isinstance(a, ast.Subscript) and isinstance(a.value, ast.Name) for a in args)
    want = (ra1, dec1, ra2, dec2)
    names_ok = shape_ok and all(a.value.id == w for a, w in zip(args, want))
    xi = src(args[0].slice).replace(' ', '') if shape_ok else None
    xk = src(args[2].slice).replace(' ', '') if shape_ok else None
    idx_ok = shape_ok and src(args[1].slice).replace(' ', '') == xi and src(args[3].slice).replace(' ', '') == xk
    others = [c for c in apps if c is not sep_app]
    app_i = next((c for c in others if _xs(c.args[0], fa) == xi), None)
    app_k = next((c for c in others if c is not app_i and _xs(c.args[0], fa) == xk), None)
    oks = names_ok and idx_ok and app_i is not None and app_k is not None and units == 2 and abs(factor - 1.0 / 3600.0) < 1e-15
    ctx.check('C04.ALIGN', oks, f, sep_app, '(i, k, sep) are appended together, sep = gcirc(ra1[i], dec1[i], ra2[k], dec2[k]) in degrees',
              msg='match1/match2/distance12 are not appended in lockstep with the separation of the same pair in degrees: separation is `%s`, '
                  'appended indices are %s' % (src(sepx)[:90], [src(c.args[0]) for c in others]), construct='pair accumulation')
    if not oks:
        return
    role = {app_i.func.value.id: 'i', app_k.func.value.id: 'k', sep_app.func.value.id: 'sep'}
    # the first-list point: every index of the first list
    iloop = next((a for a in ancestors(app_i) if isinstance(a, ast.For) and isinstance(a.target, ast.Name) and a.target.id == xi), None)
    full = iloop is not None and isinstance(iloop.iter, ast.Call) and call_name(iloop.iter) == 'range' and len(iloop.iter.args) == 1 \
        and isinstance(_size_of(_x(iloop.iter.args[0], fa)), ast.Name) and _size_of(_x(iloop.iter.args[0], fa)).id in (ra1, dec1)
    if not full:
        raise AnalysisError('C04: spherematch does not visit the first list by `for i in range(ra1.size)`: not an idiom this checker can judge')
    # the candidate: every member of the cell the first-list point was looked up in
    kx = _x(app_k.args[0], fa)
    cell = None
    kloop = None
    if isinstance(kx, ast.Name):
        kloop = next((a for a in ancestors(app_k) if isinstance(a, ast.For) and isinstance(a.target, ast.Name) and a.target.id == kx.id), None)
        if kloop is not None:
            cell = _x(kloop.iter, fa)
    elif isinstance(kx, ast.Subscript) and isinstance(kx.slice, ast.Name):
        kloop = next((a for a in ancestors(app_k) if isinstance(a, ast.For) and isinstance(a.target, ast.Name) and a.target.id == kx.slice.id), None)
        if kloop is not None and isinstance(kloop.iter, ast.Call) and call_name(kloop.iter) == 'range' and len(kloop.iter.args) == 1:
            n_of = _size_of(_x(kloop.iter.args[0], fa))
            if n_of is not None and src(n_of) == src(kx.value):
                cell = kx.value
    if cell is None or _cell_of(cell) is None or not (isinstance(_cell_of(cell)[0], ast.Attribute) and _cell_of(cell)[0].attr == 'chunkList'):
        raise AnalysisError('C04: the candidate loop of spherematch (`%s`) is not a scan of one cell list: not an idiom this checker can judge' % src(kx)[:60])
    base, D, R = _cell_of(cell)

    def component(e):
        """(get-call, position) when e is the position-th item of the tuple returned by chunk.get(...)."""
        if isinstance(e, ast.Subscript) and _np_call(e.value, ('get',)) and isinstance(try_fold(e.slice), int):
            return e.value, try_fold(e.slice)
        if isinstance(e, ast.Name):
            # e may belong to an expanded copy: reaching definitions are those of the same name where the candidate loop reads it
            e = next((x for x in ast.walk(kloop) if isinstance(x, ast.Name) and x.id == e.id and isinstance(x.ctx, ast.Load)), e)
            for d, v in fa.defs(e):
                if isinstance(d, ast.Assign) and len(d.targets) == 1 and isinstance(d.targets[0], ast.Tuple) and _np_call(d.value, ('get',)):
                    for p_, t in enumerate(d.targets[0].elts):
                        if isinstance(t, ast.Name) and t.id == e.id:
                            return d.value, p_
        return None, None
    gd, pd = component(D)
    gr, pr = component(R)
    ok = gd is not None and gr is gd and (pr, pd) == (0, 1) and len(gd.args) >= 2 and _xs(gd.args[1], fa) == '%s[%s]' % (dec1, xi) \
        and _xs(gd.func.value, fa) == src(base.value).replace(' ', '')
    ctx.check('C04.ALIGN', ok, f, kloop, 'candidate k runs over the cell (chunkList[dec slice][ra cell]) the first-list point was looked up in',
              msg='the candidates of first-list point i are taken from `%s`, which is not the cell chunk.get(ra, dec1[i]) returned as (ra cell, dec slice)'
                  % src(cell)[:80], construct='candidate index')
    # no pre-filter this checker could judge
    skips = [x for x in ast.walk(kloop) if isinstance(x, (ast.Continue, ast.Break))]
    conds = []
    child = enclosing_stmt(sep_app)
    for a in ancestors(child):
        if a is kloop:
            break
        if isinstance(a, ast.If):
            if not any(child is x or child in list(ast.walk(x)) for x in a.body):
                skips.append(a)
            conds.extend(_conjuncts(expand(a.test, fa, depth=6, calls=True)))
        child = a
    radius = [c for c in conds if _cmp_lt(c) is not None and src(_cmp_lt(c)[0]).replace(' ', '') == src(sepx).replace(' ', '')]
    extra = [c for c in conds if c not in radius]
    if skips or extra:
        raise AnalysisError('C04: the candidate loop of spherematch skips candidates before their separation is computed (`%s`): whether that test is '
                            'a lower bound of the great-circle distance is geometry this checker cannot judge' % (src(extra[0])[:60] if extra else 'continue/break/else'))
    # MARGIN
    asg = [c for c in walk_local(f.node) if isinstance(c, ast.Call) and isinstance(c.func, ast.Attribute) and c.func.attr == 'assign']
    ok = len(asg) == 1 and len(asg[0].args) >= 3 and len(radius) == 1 and _cmp_lt(radius[0])[1] is ast.Lt \
        and _xs(asg[0].args[2], fa) == src(_cmp_lt(radius[0])[2]).replace(' ', '') == mlen \
        and [_xs(a, fa) for a in asg[0].args[:2]] == [ra2, dec2]
    ctx.check('C04.MARGIN', ok, f, asg[0] if asg else f.node, 'the second list is entered in cells with a margin equal to the match length, and a pair is kept when '
              'its separation is < that length',
              msg='the cell margin (%s of %s) and the radius test (%s) do not agree with "separation below the match length"'
                  % (src(asg[0].args[2]) if asg and len(asg[0].args) > 2 else '?', [src(a) for a in asg[0].args[:2]] if asg else '?',
                     src(radius[0]) if radius else 'none'), construct='margin vs radius')
    ctor = [c for c in walk_local(f.node) if isinstance(c, ast.Call) and isinstance(c.func, ast.Name) and c.func.id == 'chunks']
    ctx.need(len(ctor) == 1 and len(ctor[0].args) >= 3, 'spherematch: chunks(...) construction not found')
    szs = []
    a3 = ctor[0].args[2]
    for d, v in (fa.defs(a3) if isinstance(a3, ast.Name) else [(None, a3)]):
        if v is None:
            continue
        vx = _x(v, fa)
        cands = vx.args if (isinstance(vx, ast.Call) and call_name(vx) == 'max' and isinstance(vx.func, ast.Name)) else [vx]
        best = None
        for c in cands:
            if isinstance(c, ast.BinOp) and isinstance(c.op, ast.Mult):
                for u, w in ((c.left, c.right), (c.right, c.left)):
                    if isinstance(u, ast.Name) and u.id == mlen and isinstance(try_fold(w), (int, float)):
                        best = max(best or 0, try_fold(w))
        if best is None:
            raise AnalysisError('C04: the default chunk size of spherematch (`%s`) is not a multiple of the match length this checker can read' % src(v)[:60])
        szs.append((best, v))
    ctx.check('C04.MARGIN', bool(szs) and all(b >= 4 for b, v in szs), f, szs[0][1] if szs else ctor[0],
              'the default chunk size is at least 4 x match length (%s)' % [src(v) for b, v in szs],
              msg='chunk size definitions %s no longer enforce chunksize >= 4*matchlength' % [src(v) for b, v in szs], construct='chunksize %s' % [src(v) for b, v in szs])

    # ------------------------------------------------------------------ output order
    def arr_role(e):
        if _np_call(e, ('array', 'asarray')) and e.args and isinstance(e.args[0], ast.Name):
            return role.get(e.args[0].id)
        return None

    def is_sort_index(e):
        if isinstance(e, ast.Call) and call_name(e) == 'argsort':
            recv = e.func.value if (isinstance(e.func, ast.Attribute) and not (isinstance(e.func.value, ast.Name) and e.func.value.id in ('np', 'numpy'))) \
                else (e.args[0] if e.args else None)
            return recv is not None and arr_role(recv) == 'sep' and not any(k.arg not in ('kind', 'axis') for k in e.keywords)
        return False
    order = ('i', 'k', 'sep')
    rets = [r for r in fa.returns() if isinstance(r.value, ast.Tuple) and len(r.value.elts) == 3]
    ctx.need(rets, 'spherematch: return of (match1, match2, distance12) not found')
    unlimited = {0: [], 1: [], 2: []}
    outputs = {}
    unknown_out = []
    for r in rets:
        for pos, elt in enumerate(r.value.elts):
            vals = [(d, v) for d, v in fa.defs(elt) if v is not None] if isinstance(elt, ast.Name) else [(r, elt)]
            for d, v in vals:
                vx = _x(v, fa)
                if isinstance(vx, ast.Subscript) and arr_role(vx.value) is not None:
                    unlimited[pos].append((d, vx))
                elif _np_call(vx, ('zeros', 'empty', 'zeros_like', 'empty_like')):
                    outputs[pos] = (elt.id, d)
                else:
                    unknown_out.append('C04: spherematch returns `%s` in position %d: not an output form this checker can judge' % (src(v)[:60], pos))
    for pos in range(3):
        ctx.need(unlimited[pos], 'spherematch: the unlimited (maxmatch <= 0) output in position %d not found' % pos)
        for d, vx in unlimited[pos]:
            ok = arr_role(vx.value) == order[pos] and is_sort_index(vx.slice)
            ctx.check('C04.SORTED', ok, f, d, 'unlimited branch: output %d is the %s list re-ordered by argsort of the distances' % (pos, order[pos]),
                      msg='unlimited branch: output %d is `%s`, not the %s list in order of increasing distance' % (pos, src(vx)[:80], order[pos]),
                      construct='output %d unlimited' % pos)
    # ------------------------------------------------------------------ maxmatch selection
    def sorted_item(e, t):
        """role of A when e is A[S[t]] (A one of the three arrays, S the sort index, t the loop variable)."""
        if isinstance(e, ast.Subscript) and isinstance(e.slice, ast.Subscript) and is_sort_index(e.slice.value) \
                and isinstance(e.slice.slice, ast.Name) and e.slice.slice.id == t:
            return arr_role(e.value)
        return None

    def counter_side(g):
        g = next((x for x in walk_local(f.node) if isinstance(x, ast.Name) and x.id == g.id and isinstance(x.ctx, ast.Load)
                  and any(isinstance(a, ast.For) for a in ancestors(x))), g)
        vs = [v for d, v in fa.defs(g) if v is not None]
        v = canon_expr(vs[0]) if vs and all(src(canon_expr(w)) == src(canon_expr(vs[0])) for w in vs) else None
        if v is not None and _np_call(v, ('zeros',)) and v.args:
            n_of = _size_of(_x(v.args[0], fa))
            if isinstance(n_of, ast.Name):
                return 'i' if n_of.id in (ra1, dec1) else 'k' if n_of.id in (ra2, dec2) else None
        return None
    loops = []
    for lp in walk_local(f.node):
        if not (isinstance(lp, ast.For) and isinstance(lp.target, ast.Name)):
            continue
        for st in lp.body:
            if isinstance(st, ast.If) and any(isinstance(x, ast.Name) and x.id == maxmatch for x in ast.walk(st.test)):
                loops.append((lp, st))
    if not loops:
        # no per-point counters at all: is there any sequential computation in the maxmatch branch (or in package helpers it calls)?
        br = [n for n in walk_local(f.node) if isinstance(n, ast.If) and _cmp_lt(canon_expr(n.test)) is not None
              and src(_cmp_lt(canon_expr(n.test))[2]) == maxmatch and try_fold(_cmp_lt(canon_expr(n.test))[0]) == 0]
        if br:
            seq = [x for b in br[0].body for x in ast.walk(b) if isinstance(x, (ast.For, ast.While))]
            for b in br[0].body:
                for c in ast.walk(b):
                    if isinstance(c, ast.Call):
                        g = repo.resolve_call(c, f)
                        if g is not None:
                            seq += [x for x in ast.walk(g.node) if isinstance(x, (ast.For, ast.While))]
            if not seq:
                ctx.fail('C04.MAXMATCH-SIB', f, br[0], 'maxmatch selection without sequential state',
                         'the maxmatch > 0 selection contains no loop: whether a pair is kept depends on how many *accepted* closer pairs already use '
                         'its points, a loop-carried quantity that an element-wise (rank among candidates) formula cannot compute - pairs are dropped '
                         'because of candidates that were themselves rejected')
                return
    if unknown_out:
        raise AnalysisError(unknown_out[0])
    if len(loops) != 2:
        raise AnalysisError('C04: the sequential counting / filling loops of the maxmatch selection were not found (%d loops test the per-point counters): '
                            'not an idiom this checker can judge' % len(loops))
    desc = []
    for lp, iff in loops:
        t = lp.target.id
        it_ok = isinstance(lp.iter, ast.Call) and call_name(lp.iter) == 'range' and len(lp.iter.args) == 1
        n_of = _size_of(_x(lp.iter.args[0], fa)) if it_ok else None
        it_ok = it_ok and n_of is not None and (arr_role(n_of) is not None or is_sort_index(n_of))
        tests = {}
        unknown = []
        for cj in _conjuncts(expand(iff.test, fa, depth=6, calls=True)):
            c = _cmp_lt(cj)
            if c is not None and c[1] is ast.Lt and isinstance(c[2], ast.Name) and c[2].id == maxmatch and isinstance(c[0], ast.Subscript) \
                    and isinstance(c[0].value, ast.Name) and counter_side(c[0].value) is not None:
                side = counter_side(c[0].value)
                tests[side] = (c[0].value.id, sorted_item(c[0].slice, t), src(c[0].slice).replace(' ', ''))
            else:
                unknown.append(cj)
        incs = {}
        stores = {}
        count = []
        for k_, st in enumerate(iff.body):
            if isinstance(st, ast.AugAssign) and isinstance(st.op, ast.Add) and try_fold(st.value) == 1:
                if isinstance(st.target, ast.Subscript) and isinstance(st.target.value, ast.Name):
                    incs[st.target.value.id] = src(_x(st.target.slice, fa)).replace(' ', '')
                elif isinstance(st.target, ast.Name):
                    count.append((st.target.id, k_))
            elif isinstance(st, ast.Assign) and len(st.targets) == 1 and isinstance(st.targets[0], ast.Subscript) and isinstance(st.targets[0].value, ast.Name):
                stores[st.targets[0].value.id] = (src(st.targets[0].slice), sorted_item(_x(st.value, fa), t), k_, st)
        stray = [st for st in lp.body if st is not iff and any(isinstance(x, (ast.AugAssign,)) or (isinstance(x, ast.Assign) and isinstance(x.targets[0], ast.Subscript))
                                                               for x in ast.walk(st))]
        desc.append(dict(lp=lp, iff=iff, it_ok=it_ok, tests=tests, unknown=unknown, incs=incs, stores=stores, count=count, stray=stray))
    for d_ in desc:
        if d_['unknown'] or d_['stray'] or iff.orelse:
            raise AnalysisError('C04: the maxmatch loops of spherematch contain a test or an update this checker cannot judge (`%s`)'
                                % (src(d_['unknown'][0])[:60] if d_['unknown'] else 'update outside the acceptance test'))
    fill = [d_ for d_ in desc if d_['stores']]
    cnt = [d_ for d_ in desc if not d_['stores']]
    if len(fill) != 1 or len(cnt) != 1:
        raise AnalysisError('C04: the maxmatch selection is not a counting pass followed by a filling pass: not an idiom this checker can judge')
    fill, cnt = fill[0], cnt[0]

    def accept_ok(d_):
        t_ = d_['tests']
        return set(t_) == {'i', 'k'} and t_['i'][1] == 'i' and t_['k'][1] == 'k' \
            and d_['incs'] == {t_['i'][0]: t_['i'][2], t_['k'][0]: t_['k'][2]}
    same = accept_ok(fill) and accept_ok(cnt) and fill['tests'] == cnt['tests']
    ctx.check('C04.MAXMATCH-SIB', same, f, fill['iff'], 'counting and filling loops accept a pair under the same test (both points used < maxmatch times so far) '
              'and count accepted pairs only',
              msg='the counting loop and the filling loop of the maxmatch selection do not both accept a pair exactly when its first-list point and its '
                  'second-list point were used fewer than maxmatch times, counting accepted pairs only (tests `%s` / `%s`, updates %s / %s)'
                  % (src(cnt['iff'].test)[:60], src(fill['iff'].test)[:60], sorted(cnt['incs']), sorted(fill['incs'])), construct='maxmatch sibling loops')
    ctx.check('C04.MAXMATCH-SIB', fill['it_ok'] and cnt['it_ok'], f, cnt['lp'], 'both loops visit the sorted pairs s[i] for increasing i (distance order)',
              msg='maxmatch loops iterate %s' % [src(d_['lp'].iter) for d_ in desc], construct='maxmatch loop order')
    ctx.need(len(outputs) == 3, 'spherematch: the maxmatch outputs (three arrays sized by the count) not found')
    ok = len(fill['count']) == 1 and len(cnt['count']) == 1
    if ok:
        n_, kpos = fill['count'][0]
        for pos in range(3):
            nm, d = outputs[pos]
            stv = fill['stores'].get(nm)
            ok = ok and stv is not None and stv[0] == n_ and stv[1] == order[pos] and stv[2] < kpos
            sz = _x(d.value, fa) if isinstance(d, ast.Assign) else None
            ok = ok and sz is not None and sz.args and isinstance(sz.args[0], ast.Name) and sz.args[0].id == cnt['count'][0][0]
    ctx.check('C04.MAXMATCH-SIB', ok, f, fill['iff'], 'accepted pairs are stored with their own indices and distance at consecutive positions of outputs sized by the count',
              msg='the filling loop does not store each accepted pair (i, k, distance) at the next free position of the three outputs: %s'
                  % sorted(src(v[3]) for v in fill['stores'].values()), construct='maxmatch fill')
    first, second = (cnt, fill) if cnt['lp'].lineno < fill['lp'].lineno else (fill, cnt)
    between = [st for st in walk_local(f.node) if isinstance(st, ast.stmt) and first['lp'].end_lineno < st.lineno < second['lp'].lineno]
    resets = set()
    for st in between:
        if isinstance(st, ast.Assign) and len(st.targets) == 1:
            t0 = st.targets[0]
            if isinstance(t0, ast.Subscript) and isinstance(t0.value, ast.Name) and isinstance(t0.slice, ast.Slice) and t0.slice.lower is None \
                    and t0.slice.upper is None and try_fold(st.value) == 0:
                resets.add(t0.value.id)
            elif isinstance(t0, ast.Name) and (try_fold(st.value) == 0 or _np_call(st.value, ('zeros',))):
                resets.add(t0.id)
        elif isinstance(st, ast.Expr) and isinstance(st.value, ast.Call) and call_name(st.value) == 'fill' and isinstance(st.value.func.value, ast.Name) \
                and st.value.args and try_fold(st.value.args[0]) == 0:
            resets.add(st.value.func.value.id)
    need_reset = set(cnt['incs']) | ({fill['count'][0][0]} if fill['count'] and cnt['count'] and fill['count'][0][0] == cnt['count'][0][0] else set())
    ctx.check('C04.MAXMATCH-SIB', need_reset <= resets, f, second['lp'], 'counters are reset between the two passes (%s)' % sorted(need_reset),
              msg='%s not reset between the counting and the filling pass' % sorted(need_reset - resets), construct='counter reset')


# --------------------------------------------------------------------------------------------- C05

def check_list_desc(ctx, repo, rule):
    n = 0
    for q in ('chunks.friendsoffriends', 'groups.__init__', 'spheregroup'):
        f = repo.func(SG, q)
        ctx.cover(f)
        for lp in walk_local(f.node):
            if not isinstance(lp, ast.For) or len(lp.body) != 2 or not isinstance(lp.target, ast.Name):
                continue
            a, b = lp.body
            if not (isinstance(a, ast.Assign) and isinstance(b, ast.Assign) and isinstance(a.targets[0], ast.Subscript) and isinstance(b.targets[0], ast.Subscript)):
                continue
            i = lp.target.id
            # next[i] = first[g[i]] ; first[g[i]] = i
            if src(a.targets[0].slice) == i and isinstance(a.value, ast.Subscript) and src(b.targets[0]) == src(a.value) and src(b.value) == i:
                n += 1
                it = lp.iter
                ok = isinstance(it, ast.Call) and call_name(it) == 'range' and len(it.args) == 3 and try_fold(it.args[1]) == -1 and try_fold(it.args[2]) == -1
                ctx.check(rule, ok, f, lp, '%s: intrusive list rebuilt while visiting members in descending order (%s)' % (q, src(it)),
                          msg='%s rebuilds the first/next lists while iterating %s: only descending order leaves first[g] at the lowest member and ends every chain at -1'
                              % (q, src(it)), construct='list rebuild order %s' % src(it))
    return n


def check_spheregroup(ctx, repo):
    f = repo.func(SG, 'spheregroup')
    fa = FA(f)
    asg = [c for c in walk_local(f.node) if isinstance(c, ast.Call) and isinstance(c.func, ast.Attribute) and c.func.attr == 'assign']
    fof = [c for c in walk_local(f.node) if isinstance(c, ast.Call) and isinstance(c.func, ast.Attribute) and c.func.attr == 'friendsoffriends']
    ok = len(asg) == 1 and len(fof) == 1 and src(asg[0].args[2]) == src(fof[0].args[2]) == f.params[2]
    ctx.check('C05.MARGIN', ok, f, asg[0] if asg else f.node, 'the cell margin and the linking length handed to friends-of-friends are the same variable',
              msg='assign margin (%s) and friends-of-friends link length (%s) differ' % (src(asg[0].args[2]) if asg else '?', src(fof[0].args[2]) if fof else '?'),
              construct='margin vs link length')
    cs = sorted(src(st.value).replace(' ', '') for st in walk_local(f.node) if isinstance(st, ast.Assign) and src(st.targets[0]) == 'chunksize')
    ctor = [c for c in walk_local(f.node) if isinstance(c, ast.Call) and isinstance(c.func, ast.Name) and c.func.id == 'chunks']
    ok = cs == ['4.0*linklength', 'max(4.0*linklength,0.1)'] and len(ctor) == 1 and src(ctor[0].args[2]) == 'chunksize'
    if ok:
        clamp = [st for st in walk_local(f.node) if isinstance(st, ast.Assign) and src(st.targets[0]) == 'chunksize' and src(st.value).replace(' ', '') == '4.0*linklength'][0]
        ok = isinstance(clamp._parent, ast.If) and src(clamp._parent.test).replace(' ', '') == 'chunksize<4.0*linklength' and clamp.lineno < ctor[0].lineno
    ctx.check('C05.MARGIN', bool(ok), f, ctor[0] if ctor else f.node, 'chunk size is clamped to >= 4 x link length before the cells are built',
              msg='chunk size is not clamped to 4*linklength before chunks(...) is built: %s' % cs, construct='chunksize clamp')
    # RESET
    for nm, val in (('firstgroup[:]', -1), ('multgroup[:]', 0)):
        st = assign_of(f.node, nm)
        ok = len(st) == 1 and try_fold(st[0].value) == val
        if ok:
            later = [lp for lp in walk_local(f.node) if isinstance(lp, ast.For) and lp.lineno > st[0].lineno and nm[:-3] + '[' in src(lp)]
            ok = bool(later)
        ctx.check('C05.RESET', ok, f, st[0] if st else f.node, '%s = %d precedes its rebuild loop (entries beyond the last group stay %d)' % (nm, val, val),
                  msg='%s is not reset to %d before it is rebuilt' % (nm, val), construct='reset %s' % nm)
    # RENUMBER
    lp = [n for n in walk_local(f.node) if isinstance(n, ast.For) and 'renumbered' in src(n)]
    ok = len(lp) == 1 and src(lp[0].iter) == 'range(npoints)'
    if ok:
        body = src(lp[0])
        ok = 'if not renumbered[i]' in body and 'ingroup[j] = iclump' in body and 'renumbered[j] = True' in body and 'j = nextgroup[j]' in body \
            and 'j = firstgroup[ingroup[i]]' in body and 'iclump += 1' in body
    ctx.check('C05.RENUMBER', bool(ok), f, lp[0] if lp else f.node, 'groups are renumbered 0,1,2,.. in order of their first member: ascending scan, whole chain labelled on first encounter',
              msg='the renumbering loop changed', construct='renumber loop')


def check_fof_merge(ctx, repo):
    f = repo.func(SG, 'chunks.friendsoffriends')
    fa = FA(f)
    mins = [c for c in walk_local(f.node) if isinstance(c, ast.Call) and call_name(c) == 'min' and 'minEarly' in src(c)]
    ctx.need(mins, 'friendsoffriends: minimum-earlier-label computation not found')
    for c in mins:
        other = [a for a in c.args if src(a) != 'minEarly'][0]
        st = c
        while not isinstance(st, ast.stmt):
            st = st._parent
        blk = st._parent
        body = blk.body if st in getattr(blk, 'body', []) else blk.orelse
        idx = body.index(st)
        root_loop = [x for x in body[:idx] if isinstance(x, ast.While) and src(x.test).replace(' ', '') == 'mapGroups[%s]!=%s' % (src(other), src(other))
                     and any(isinstance(y, ast.Assign) and src(y) == '%s = mapGroups[%s]' % (src(other), src(other)) for y in x.body)]
        ctx.check('C05.ROOT', bool(root_loop), f, st, 'an earlier label is followed through mapGroups to its root before the minimum is taken',
                  msg='the earlier label `%s` enters the minimum without being followed to its root (`while mapGroups[x] != x`): a group spanning several chunks '
                      'in a fork-and-rejoin pattern is merged under the wrong label and split in two' % src(other), construct='root following before min')
    # second pass runs whenever an earlier label was seen
    sec = [st for st in walk_local(f.node) if isinstance(st, ast.Assign) and src(st.targets[0]) == 'l' and 'firstGroup[k]' in src(st.value)]
    in_else = [st for st in sec if isinstance(st._parent, ast.If) and st in st._parent.orelse and src(st._parent.test).replace(' ', '') == 'minEarly==9*nPoints']
    ok2 = len(in_else) == 1 and src(in_else[0].value) == 'chunkGroup.firstGroup[k]'
    ctx.check('C05.ROOT', ok2, f, in_else[0] if in_else else f.node, 'the re-pointing pass runs for every group that met an earlier label',
              msg='the re-pointing / path-compression pass is skipped for some groups that met an earlier label (`%s`): two provisional trees reaching one '
                  'chunk are never merged' % (src(in_else[0].value) if in_else else 'not found'), construct='second pass entry')
    # second pass: path compression to minEarly
    comp = [x for x in walk_local(f.node) if isinstance(x, ast.While) and 'mapGroups[checkEarly] != checkEarly' in src(x.test) and any('tmpEarly' in src(y) for y in x.body)]
    ok = len(comp) == 1 and [src(y) for y in comp[0].body] == ['tmpEarly = mapGroups[checkEarly]', 'mapGroups[checkEarly] = minEarly', 'checkEarly = tmpEarly']
    ctx.check('C05.ROOT', ok, f, comp[0] if comp else f.node, 'second pass re-points every label on the path to the minimum (path compression)',
              msg='the path-compression pass of the merge changed', construct='path compression')
    fin = [x for x in walk_local(f.node) if isinstance(x, ast.For) and src(x.iter) == 'range(nMapGroups)']
    ok = len(fin) == 1 and 'mapGroups[i] = mapGroups[mapGroups[i]]' in src(fin[0]) and 'mapGroups[i] = nGroups' in src(fin[0])
    ctx.check('C05.ROOT', ok, f, fin[0] if fin else f.node, 'final pass maps every provisional label to the number of its root, ascending',
              msg='the final relabelling pass changed', construct='final relabel')


def check_full_scan(ctx, repo):
    f = repo.func(SG, 'groups.__init__')
    seps = [c for c in walk_local(f.node) if isinstance(c, ast.Call) and src(c.func) == 'self.separation']
    ctx.need(len(seps) == 1, 'groups.__init__: separation call not found')
    c = seps[0]
    inner = next((a for a in ancestors(c) if isinstance(a, ast.For)), None)
    outer = next((a for a in ancestors(inner) if isinstance(a, ast.For)), None) if inner is not None else None
    ok = inner is not None and outer is not None and src(inner.iter) == 'range(nTargets)' and src(outer.iter) == 'range(nTargets)' \
        and [src(a) for a in c.args] == ['coordinates[:, %s]' % outer.target.id, 'coordinates[:, %s]' % inner.target.id]
    ctx.check('C05.FULL-SCAN', ok, f, inner or f.node, 'every target is compared with all targets (range(nTargets)), earlier ones included',
              msg='the neighbour scan for target i visits `%s`: stale group tags of targets that were linked earlier are never repaired and a sparsely linked '
                  'chain splits' % (src(inner.iter) if inner is not None else '?'), construct='neighbour scan %s' % (src(inner.iter) if inner is not None else '?'))
    if outer is not None:
        skips = []
        for x in ast.walk(outer):
            if isinstance(x, (ast.Continue, ast.Break)):
                near = next((a for a in ancestors(x) if isinstance(a, (ast.For, ast.While))), None)
                if near is outer:
                    skips.append(x)
        rebuild = [lp for lp in outer.body if isinstance(lp, ast.For) and len(lp.body) == 2 and isinstance(lp.body[0], ast.Assign) and src(lp.body[0].targets[0]).startswith('nextGroup[')]
        ctx.check('C05.FULL-SCAN', not skips and len(rebuild) == 1, f, skips[0] if skips else outer,
                  'the first/next lists are rebuilt after every target (no early `continue` in the per-target loop)',
                  msg='the per-target loop of groups.__init__ can skip the rebuild of the first/next lists (`%s` under `%s`): later targets then walk stale '
                      'chains and isolated points keep the label -1' % ('continue' if skips else 'rebuild missing',
                                                                        src(skips[0]._parent.test) if skips and hasattr(skips[0]._parent, 'test') else ''),
                  construct='per-target loop skips list rebuild')
    le = [x for x in walk_local(f.node) if isinstance(x, ast.Compare) and src(x.left) == 'sep']
    ok = len(le) == 1 and isinstance(le[0].ops[0], ast.LtE) and src(le[0].comparators[0]) == f.params[2]
    ctx.check('C05.FULL-SCAN', ok, f, le[0] if le else f.node, 'two targets are friends when sep <= distance (separations do not exceed the linking length)',
              msg='the friend test is `%s`' % (src(le[0]) if le else '?'), construct='friend test')


def _emptiness_test(t, what):
    """True when test t says exactly 'the list `what` is not empty'."""
    ts = src(t).replace(' ', '')
    w = what.replace(' ', '')
    return ts in ('len(%s)>0' % w, 'len(%s)!=0' % w, 'len(%s)>=1' % w, w, '0<len(%s)' % w, 'len(%s)' % w)


def check_chunk_grid(ctx, repo, rule):
    """Rules about chunks.__init__ / cosDecMin / friendsoffriends shared by C04 and C05."""
    f = repo.func(SG, 'chunks.__init__')
    fa = FA(f)
    ctx.cover(f)
    # ---- exact end points: the code tests decBounds[..] == +-90.0 and takes cos() of the end points, so they must BE decMin / decMax
    eq90 = [c for c in walk_local(f.node) if isinstance(c, ast.Compare) and len(c.ops) == 1 and isinstance(c.ops[0], ast.Eq)
            and 'decBounds' in src(c.left) and try_fold(c.comparators[0]) in (90.0, -90.0)]
    builds = [st for st in walk_local(f.node) if isinstance(st, ast.Assign) and src(st.targets[0]) == 'self.decBounds']
    ctx.need(builds, 'chunks.__init__: construction of decBounds not found')
    b = builds[0]
    exact = isinstance(b.value, ast.Call) and call_name(b.value) == 'linspace'
    pins = [st for st in walk_local(f.node) if isinstance(st, ast.Assign) and isinstance(st.targets[0], ast.Subscript)
            and src(st.targets[0].value) == 'self.decBounds' and st.lineno > b.lineno]
    pinned = {src(st.targets[0].slice).replace(' ', ''): src(st.value) for st in pins}
    hi_ok = exact or pinned.get('self.nDec') == 'decMax' or pinned.get('-1') == 'decMax'
    lo_ok = exact or pinned.get('0') == 'decMin' or isinstance(b.value, ast.BinOp) and isinstance(b.value.op, ast.Add) and src(b.value.left) == 'decMin'
    if eq90:
        ctx.check(rule, hi_ok and lo_ok, f, b, 'the end points of decBounds are exactly decMin and decMax (the code compares them with +-90.0 and takes their cosine)',
                  msg='decBounds is built as `%s`: its last element is decMin + (decMax - decMin)*n/n, which rounding can carry to 90.00000000000001 when decMax '
                      'was clamped to 90; then `== 90.0` fails and cos() is negative, and spherematch / spheregroup raise "cosDecMin not positive" for valid input'
                      % src(b.value)[:70], construct='decBounds end points not exact')
    # ---- the number of RA cells of a slice is final before it is used to lay out that slice
    loops = [n for n in walk_local(f.node) if isinstance(n, ast.For) and any(isinstance(st, ast.Expr) and 'self.raBounds.append' in src(st) for st in n.body)]
    ctx.need(loops, 'chunks.__init__: slice loop not found')
    lp = loops[0]
    order = []
    for st in lp.body:
        for x in walk_local(st):
            if isinstance(x, ast.Subscript) and src(x.value) == 'self.nRa':
                order.append(('store' if isinstance(x.ctx, ast.Store) else 'load', st))
            elif isinstance(x, ast.Call) and src(x.func) == 'self.nRa.append':
                order.append(('store', st))
    layout = [st for st in lp.body if isinstance(st, ast.Expr) and 'self.raBounds.append' in src(st)]
    late = [st for k, st in order if k == 'store' and layout and st.lineno > layout[0].lineno]
    ctx.check(rule, not late, f, late[0] if late else lp, 'nRa[i] is final before raBounds[i] is laid out with it',
              msg='nRa[i] is changed (`%s`) after raBounds[i] has been built from the old value: the slice has more RA bounds than cells, '
                  'points of that slice are looked up in cells that do not exist' % (src(late[0])[:50] if late else ''), construct='nRa changed after layout')
    # ---- cosDecMin: the bound FARTHER from the equator
    g = repo.func(SG, 'chunks.cosDecMin')
    ctx.cover(g)
    text = src(g.node)
    two_sided = ('abs(' in text or 'np.abs(' in text or 'np.absolute(' in text or 'fabs' in text or 'min(' in text and text.count('cos(') >= 2)
    one_sided = not two_sided and any(isinstance(c, ast.Call) and call_name(c) in ('max', 'min', 'amax', 'amin') for c in walk_local(g.node))
    ctx.need(two_sided or one_sided or True, 'cosDecMin')
    ctx.check(rule, two_sided, g, g.node, 'cosDecMin(i) takes the cosine of the slice edge with the larger |dec|',
              msg='cosDecMin(i) does not compare the absolute values of the two edges: south of the equator it returns the cosine of the edge nearer '
                  'the equator, the RA margin there is too small and pairs across cell edges are lost', construct='cosDecMin one-sided')
    # ---- friendsoffriends visits every non-empty chunk
    h = repo.func(SG, 'chunks.friendsoffriends')
    ctx.cover(h)
    calls = [c for c in walk_local(h.node) if isinstance(c, ast.Call) and src(c.func) == 'self.chunkfriendsoffriends']
    ctx.need(calls, 'friendsoffriends: per-chunk grouping call not found')
    c = calls[0]
    conds = []
    child = c
    for a in ancestors(c):
        if isinstance(a, ast.If):
            conds.append(a.test)
        if isinstance(a, ast.For):
            continue
    lst = src(c.args[2]) if len(c.args) > 2 else 'self.chunkList[i][j]'
    extra = [t for t in conds if not _emptiness_test(t, lst)]
    ctx.check(rule, not extra, h, extra[0] if extra else c, 'every non-empty chunk is grouped (guards: %s)' % [src(t) for t in conds],
              msg='friendsoffriends skips a chunk under `%s`: a chunk whose members are all labelled already can be the only place where two earlier '
                  'groups meet, so linked points end up in different groups' % (src(extra[0])[:80] if extra else ''), construct='chunk skipped: ' + (src(extra[0])[:60] if extra else ''))


def check_append_only(ctx, repo, rule):
    """spherematch: between the candidate loop and the distance sort the pair lists only grow."""
    f = repo.func(SG, 'spherematch')
    ctx.cover(f)
    lists = set()
    for st in walk_local(f.node):
        if isinstance(st, ast.Assign) and isinstance(st.value, ast.Call) and call_name(st.value) == 'list' and not st.value.args:
            for t in st.targets:
                if isinstance(t, ast.Name):
                    lists.add(t.id)
    apps = {}
    for c in walk_local(f.node):
        if isinstance(c, ast.Call) and isinstance(c.func, ast.Attribute) and c.func.attr in ('append', 'extend') and isinstance(c.func.value, ast.Name) \
                and c.func.value.id in lists:
            apps.setdefault(c.func.value.id, []).append(c)
    pair_lists = {n for n, cs in apps.items() if any(any(isinstance(a, ast.For) for a in ancestors(c)) for c in cs)}
    ctx.need(len(pair_lists) >= 3, 'spherematch: pair lists (match1, match2, distance12) not found')
    cand_loops = set()
    for n_ in pair_lists:
        for c in apps[n_]:
            fors = [a for a in ancestors(c) if isinstance(a, ast.For)]
            if fors:
                cand_loops.add(id(fors[-1]))          # outermost loop around the append: the candidate loop
    bad = []
    for st in walk_local(f.node):
        if not any(isinstance(a, ast.For) and id(a) in cand_loops for a in ancestors(st)):
            continue
        if isinstance(st, ast.Delete):
            for t in st.targets:
                if any(isinstance(x, ast.Name) and x.id in pair_lists for x in ast.walk(t)):
                    bad.append(st)
        elif isinstance(st, (ast.Assign, ast.AugAssign)):
            for t in (st.targets if isinstance(st, ast.Assign) else [st.target]):
                if isinstance(t, ast.Subscript) and isinstance(t.value, ast.Name) and t.value.id in pair_lists:
                    bad.append(st)
                elif isinstance(t, ast.Name) and t.id in pair_lists:
                    bad.append(st)
        elif isinstance(st, ast.Expr) and isinstance(st.value, ast.Call) and isinstance(st.value.func, ast.Attribute) \
                and st.value.func.attr in ('pop', 'remove', 'clear', 'insert', 'sort', 'reverse') and isinstance(st.value.func.value, ast.Name) \
                and st.value.func.value.id in pair_lists:
            bad.append(st)
    ctx.check(rule, not bad, f, bad[0] if bad else f.node, 'the candidate loop only appends to %s' % sorted(pair_lists),
              msg='the candidate loop removes or overwrites entries of the pair lists (`%s`) before the global distance sort: a pair discarded here '
                  'cannot be the fallback partner when a closer point claims the first choice (maxmatch > 0), or is simply lost (maxmatch = 0)'
                  % (src(bad[0])[:60] if bad else ''), construct='pair list shrunk in the candidate loop: ' + (src(bad[0])[:50] if bad else ''))

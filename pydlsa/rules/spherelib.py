"""Rule functions over pydl/pydlutils/spheregroup.py shared by C04 and C05."""

import ast

from .. import AnalysisError
from ..astutil import src, call_name, dotted, walk_local, try_fold, ancestors, canon
from ..fn import FA

SG = 'pydl/pydlutils/spheregroup.py'


def assign_of(fn, name):
    return [st for st in walk_local(fn) if isinstance(st, ast.Assign) and src(st.targets[0]) == name]


def check_cell_agree(ctx, repo, rule):
    g = repo.func(SG, 'chunks.get')
    b = repo.func(SG, 'chunks.getbounds')
    ctx.cover(g, b)
    gd = assign_of(g.node, 'decChunk')
    bd = assign_of(b.node, 'decChunkMin')
    ctx.need(gd and bd, 'chunks.get / getbounds: declination slice formula not found')
    c1, _ = canon(gd[0].value, extra=('self', 'np', 'int', 'float'))
    c2, _ = canon(bd[0].value, extra=('self', 'np', 'int', 'float'))
    ctx.check(rule, c1 == c2, g, gd[0], 'declination slice: lookup (get) and insertion (getbounds) use the same formula',
              msg='a first-list point is looked up in a declination slice computed as `%s` while second-list points were entered with `%s`'
                  % (src(gd[0].value)[:70], src(bd[0].value)[:70]), construct='dec slice formulas')
    gr = assign_of(g.node, 'raChunk')
    gr = [st for st in gr if 'floor' in src(st.value)]
    br = [st for st in walk_local(b.node) if isinstance(st, ast.Assign) and src(st.targets[0]).startswith('raChunkMin[') and 'floor' in src(st.value)]
    ctx.need(gr and br, 'chunks.get / getbounds: RA cell formula not found')
    c1, _ = canon(gr[0].value, extra=('self', 'np', 'int', 'float'))
    c2, _ = canon(br[0].value, extra=('self', 'np', 'int', 'float'))
    ctx.check(rule, c1 == c2, g, gr[0], 'RA cell: lookup (get) and insertion (getbounds) use the same formula modulo the slice index',
              msg='a first-list point is looked up in an RA cell computed as `%s` while second-list points were entered with `%s`'
                  % (src(gr[0].value)[:70], src(br[0].value)[:70]), construct='RA cell formulas')


def check_rot_agree(ctx, repo, rule):
    n = 0
    layout = repo.func(SG, 'chunks.getraminmax')
    l = assign_of(layout.node, 'currRa')
    ctx.need(l, 'chunks.getraminmax: rotated RA not found')
    want, _ = canon(l[0].value, extra=('np',))
    for q in ('chunks.assign', 'spherematch'):
        f = repo.func(SG, q)
        fa = FA(f)
        ctx.cover(f)
        for c in walk_local(f.node):
            if isinstance(c, ast.Call) and isinstance(c.func, ast.Attribute) and c.func.attr in ('get', 'getbounds') and len(c.args) >= 2 \
                    and (src(c.func.value) in ('self', 'chunk')):
                ra = fa.deep(c.args[0])
                s = src(ra).replace(' ', '')
                ok = isinstance(ra, ast.Call) and call_name(ra) == 'fmod' and try_fold(ra.args[1]) == 360.0 and 'raOffset' in s and '+' in s
                n += 1
                ctx.check(rule, ok, f, c, '%s: RA passed to %s is fmod(ra + raOffset, 360) [%s]' % (q, c.func.attr, src(ra)[:50]),
                          msg='%s passes `%s` to chunks.%s: the RA is not rotated by raOffset modulo 360 as the cell layout was' % (q, src(ra)[:50], c.func.attr),
                          construct='%s RA argument %s' % (q, src(ra)[:50]))
    return n


def check_dedup_wrap(ctx, repo, rule):
    f = repo.func(SG, 'chunks.assign')
    fa = FA(f)
    apps = [c for c in walk_local(f.node) if isinstance(c, ast.Call) and call_name(c) == 'append' and 'chunkList' in src(c.func.value)]
    ctx.need(apps, 'chunks.assign: insertion into chunkList not found')
    for c in apps:
        cell = src(c.func.value).replace('self.chunkList', '')
        guard = None
        child = c
        for a in ancestors(c):
            if isinstance(a, ast.If) and any(child is x or child in list(ast.walk(x)) for x in a.body):
                if isinstance(a.test, ast.UnaryOp) and isinstance(a.test.op, ast.Not) and src(a.test.operand).endswith(cell) and 'Done' in src(a.test.operand):
                    guard = a
            child = a
        set_done = guard is not None and any(isinstance(st, ast.Assign) and src(st.targets[0]) == src(guard.test.operand) and try_fold(st.value) is True
                                             for st in guard.body)
        is_set = False
        ctx.check(rule, guard is not None and set_done, f, c,
                  'a point is entered at most once per cell: append guarded by `not %s`, which is then set' % (src(guard.test.operand) if guard else '?'),
                  msg='chunks.assign appends the point to a cell without the already-entered test: when the wrapped cell range aliases (few RA cells, '
                      'polar slices) the point is listed several times and each of its pairs is returned several times', construct='unguarded cell insertion')
    # wrap arithmetic
    wraps = [n for n in walk_local(f.node) if isinstance(n, ast.If) and src(n.test) == 'raChunk < 0']
    ok = bool(wraps)
    for w in wraps:
        lo = src(w.body[0].value).replace(' ', '') if w.body and isinstance(w.body[0], ast.Assign) else ''
        hi_if = w.orelse[0] if w.orelse and isinstance(w.orelse[0], ast.If) else None
        hi = src(hi_if.body[0].value).replace(' ', '') if hi_if is not None and isinstance(hi_if.body[0], ast.Assign) else ''
        if lo != '(raChunk+self.nRa[decChunk])%self.nRa[decChunk]' or hi != '(raChunk-self.nRa[decChunk])%self.nRa[decChunk]' \
                or src(hi_if.test).replace(' ', '') != 'raChunk>self.nRa[decChunk]-1':
            ok = False
    ctx.check(rule, ok, f, wraps[0] if wraps else f.node, 'cells below 0 / above nRa-1 wrap around the RA circle (%d sites)' % len(wraps),
              msg='the RA wrap of out-of-range cell numbers in chunks.assign changed', construct='assign wrap arithmetic')
    # getbounds margin loops may step outside [0, nRa-1] so that assign can wrap them
    g = repo.func(SG, 'chunks.getbounds')
    ga = FA(g)
    loops = [n for n in walk_local(g.node) if isinstance(n, ast.While) and 'raCheck' in src(n.test)]
    ctx.need(len(loops) == 2, 'chunks.getbounds: RA margin loops not found')
    for lp in loops:
        down = any(isinstance(st, ast.AugAssign) and isinstance(st.op, ast.Sub) and src(st.target) == 'raCheck' for st in walk_local(lp))
        bound = None
        for c in ast.walk(lp.test):
            if isinstance(c, ast.Compare) and src(c.left) == 'raCheck':
                bound = c
        if down:
            ok = bound is not None and ((isinstance(bound.ops[0], ast.Gt) and try_fold(bound.comparators[0]) == -1) or
                                        (isinstance(bound.ops[0], ast.GtE) and try_fold(bound.comparators[0]) == 0))
            what = 'lower margin loop can step to cell -1 (wrapped into the last cell by assign)'
        else:
            ok = bound is not None and isinstance(bound.ops[0], ast.Lt) and src(bound.comparators[0]) == 'self.nRa[i]'
            what = 'upper margin loop can step to cell nRa (wrapped into cell 0 by assign)'
        ctx.check(rule, ok, g, lp, 'getbounds: %s [%s]' % (what, src(bound) if bound is not None else '?'),
                  msg='getbounds: the %s margin loop is bounded by `%s`: a point within the margin of the %s edge of the RA range is never entered in the '
                      'wrapped cell, so pairs straddling RA 0/360 are missed' % ('lower' if down else 'upper', src(bound) if bound is not None else src(lp.test)[:50],
                                                                                'lower' if down else 'upper'),
                  construct='margin loop bound %s' % (src(bound) if bound is not None else src(lp.test)[:50]))
    for nm in ('raChunkMin', 'raChunkMax'):
        fin = [st for st in walk_local(g.node) if isinstance(st, ast.Assign) and src(st.targets[0]).startswith(nm + '[') and 'floor' not in src(st.value)
               and not src(st.value).startswith('raChunkMin[')]
        ok = bool(fin) and all(src(st.value) == 'raCheck' for st in fin)
        ctx.check(rule, ok, g, fin[0] if fin else g.node, 'getbounds: %s is the unclamped loop result (may be -1 / nRa)' % nm,
                  msg='getbounds clamps %s (`%s`): the out-of-range cell numbers that chunks.assign wraps across RA 0/360 are lost and friends across the '
                      'seam are never compared' % (nm, src(fin[0].value) if fin else '?'), construct='%s = %s' % (nm, src(fin[0].value) if fin else '?'))


def check_seam(ctx, repo, rule):
    """The RA rotation is accepted only if it keeps every point at least minSize from 0 and 360; a slice that cannot avoid the seam
    spans the full circle.  (Two cooperating guards: dropping either one alone is harmless, dropping both loses points at the seam.)"""
    f = repo.func(SG, 'chunks.rarange')
    g = repo.func(SG, 'chunks.__init__')
    ctx.cover(f, g)
    acc = [n for n in walk_local(f.node) if isinstance(n, ast.If) and 'raRangeMin' in src(n.test)]
    ctx.need(acc, 'chunks.rarange: acceptance test not found')
    cmp1 = {src(c).replace(' ', '') for c in ast.walk(acc[0].test) if isinstance(c, ast.Compare)}
    guard1 = {'raMin>minSize', 'raMax<360.0-minSize'} <= cmp1 or {'minSize<raMin', '360.0-minSize>raMax'} <= cmp1
    emb = [n for n in walk_local(g.node) if isinstance(n, ast.If) and 'raRangeTmp >= 360.0' in src(n.test)]
    ctx.need(emb, 'chunks.__init__: full-circle test not found')
    cmp2 = {src(c).replace(' ', '') for c in ast.walk(emb[0].test) if isinstance(c, ast.Compare)}
    guard2 = {'raMinTmp<=minSize/cosDecMin', 'raMaxTmp>=360.0-minSize/cosDecMin'} <= cmp2
    ctx.check(rule, guard1 or guard2, f, acc[0],
              'the RA seam is kept away from the data: rotation accepted only with a minSize clearance (%s) / slices that reach the seam span the full circle (%s)'
              % (guard1, guard2),
              msg='neither chunks.rarange (clearance raMin > minSize and raMax < 360 - minSize) nor chunks.__init__ (slice within minSize of 0/360 spans the '
                  'full circle) keeps the RA seam away from the cells: points whose rotated RA falls just below 360 are skipped by assign()',
              construct='seam guards: rarange=%s init=%s' % (guard1, guard2))


def check_spherematch(ctx, repo):
    f = repo.func(SG, 'spherematch')
    fa = FA(f)
    # the candidate loop: every candidate of the cell is compared with gcirc; no pre-filter this checker could judge
    sepdef0 = assign_of(f.node, 'sep')
    if sepdef0:
        lp = next((a for a in ancestors(sepdef0[0]) if isinstance(a, ast.For)), None)
        if lp is not None:
            extra = [st for st in lp.body if isinstance(st, (ast.If, ast.Continue, ast.Break)) and 'sep' not in src(getattr(st, 'test', st))]
            if extra or any(isinstance(x, (ast.Continue, ast.Break)) for st in lp.body for x in ast.walk(st)):
                raise AnalysisError('C04: the candidate loop of spherematch skips candidates before their separation is computed (`%s`): whether that test is '
                                    'a lower bound of the great-circle distance is geometry this checker cannot judge' % (src(extra[0].test)[:60] if extra and hasattr(extra[0], 'test') else 'continue/break'))
    # MARGIN
    asg = [c for c in walk_local(f.node) if isinstance(c, ast.Call) and isinstance(c.func, ast.Attribute) and c.func.attr == 'assign']
    cmp_ = [c for c in walk_local(f.node) if isinstance(c, ast.Compare) and src(c.left) == 'sep']
    ok = len(asg) == 1 and len(cmp_) == 1 and isinstance(cmp_[0].ops[0], ast.Lt) and src(asg[0].args[2]) == src(cmp_[0].comparators[0]) == f.params[4]
    ctx.check('C04.MARGIN', ok, f, asg[0] if asg else f.node, 'the margin used to enter second-list points in cells is the match length compared with the separation',
              msg='the cell margin (%s) and the radius compared with the separation (%s) differ' % (src(asg[0].args[2]) if asg else '?', src(cmp_[0]) if cmp_ else '?'),
              construct='margin vs radius')
    cs = [st for st in walk_local(f.node) if isinstance(st, ast.Assign) and src(st.targets[0]) == 'chunksize']
    forms = sorted(src(st.value).replace(' ', '') for st in cs)
    ok = forms == ['max(4.0*matchlength,0.1)'] and isinstance(cs[0]._parent, ast.If) and src(cs[0]._parent.test) == 'chunksize is None'
    ctx.check('C04.MARGIN', ok, f, cs[0] if cs else f.node, 'the default chunk size is at least 4 x match length (%s)' % forms,
              msg='chunk size definitions %s no longer enforce chunksize >= 4*matchlength' % forms, construct='chunksize %s' % forms)
    # ALIGN
    apps = [c for c in walk_local(f.node) if isinstance(c, ast.Call) and call_name(c) == 'append' and src(c.func.value) in ('match1', 'match2', 'distance12')]
    sepdef = assign_of(f.node, 'sep')
    oks = len(apps) == 3 and len({id(a._parent._parent) for a in apps}) == 1 and sorted(src(a.args[0]) for a in apps) == ['i', 'k', 'sep']
    oks = oks and len(sepdef) == 1 and src(sepdef[0].value).replace(' ', '') == 'gcirc(ra1[i],dec1[i],ra2[k],dec2[k],units=2)/3600.0'
    ctx.check('C04.ALIGN', oks, f, apps[0] if apps else f.node, '(i, k, sep) are appended together, sep = gcirc(ra1[i], dec1[i], ra2[k], dec2[k]) in degrees',
              msg='match1/match2/distance12 are not appended in lockstep with sep computed from the same (i, k)', construct='pair accumulation')
    kdef = assign_of(f.node, 'k')
    ok = len(kdef) == 1 and src(kdef[0].value) == 'chunk.chunkList[decchunk][rachunk][j]'
    ctx.check('C04.ALIGN', ok, f, kdef[0] if kdef else f.node, 'candidate k is taken from the cell the first-list point was looked up in',
              msg='candidate index is `%s`' % (src(kdef[0].value) if kdef else '?'), construct='candidate index')
    # SORTED
    s = assign_of(f.node, 's')
    ok = len(s) == 1 and src(s[0].value) == 'odistance12.argsort()'
    ctx.check('C04.SORTED', ok, f, s[0] if s else f.node, 'output order is argsort of the distance list', msg='the sort index is `%s`' % (src(s[0].value) if s else '?'),
              construct='sort index')
    outs = {}
    for nm, srcnm in (('match1', 'omatch1'), ('match2', 'omatch2'), ('distance12', 'odistance12')):
        ds = [st for st in assign_of(f.node, nm) if isinstance(st.value, ast.Subscript)]
        outs[nm] = [src(st.value) for st in ds]
        ok = ('%s[s]' % srcnm) in outs[nm]
        ctx.check('C04.SORTED', ok, f, ds[0] if ds else f.node, 'unlimited branch: %s = %s[s]' % (nm, srcnm), msg='unlimited branch: %s is %s' % (nm, outs[nm]),
                  construct='%s unlimited' % nm)
    # MAXMATCH-SIB
    loops = [n for n in walk_local(f.node) if isinstance(n, ast.For) and any('gotten1' in src(x) for x in walk_local(n))]
    if not loops:
        # no per-point counters at all: is there any sequential computation in the maxmatch branch (or in package helpers it calls)?
        br = [n for n in walk_local(f.node) if isinstance(n, ast.If) and src(n.test) in ('maxmatch > 0', '0 < maxmatch')]
        if br:
            seq = [x for b in br[0].body for x in ast.walk(b) if isinstance(x, (ast.For, ast.While))]
            for b in br[0].body:
                for c in ast.walk(b):
                    if isinstance(c, ast.Call):
                        g = repo.resolve_call(c, f)
                        if g is not None:
                            seq += [x for x in ast.walk(g.node) if isinstance(x, (ast.For, ast.While))]
            if not seq:
                ctx.fail('C04.MAXMATCH-SIB', f, br[0], 'maxmatch selection without sequential state',
                         'the maxmatch > 0 selection contains no loop: whether a pair is kept depends on how many *accepted* closer pairs already use '
                         'its points, a loop-carried quantity that an element-wise (rank among candidates) formula cannot compute - pairs are dropped '
                         'because of candidates that were themselves rejected')
                return
    if len(loops) != 2:
        raise AnalysisError('C04: the sequential counting / filling loops of the maxmatch selection were not found (%d loops touch the per-point counters): '
                            'not an idiom this checker can judge' % len(loops))
    conds = []
    for lp in loops:
        ifs = [st for st in lp.body if isinstance(st, ast.If)]
        ctx.need(len(ifs) == 1, 'spherematch: maxmatch loop shape')
        conds.append(ifs[0])
    same_cond = ast.dump(conds[0].test) == ast.dump(conds[1].test)
    want = 'gotten1[omatch1[s[i]]] < maxmatch and gotten2[omatch2[s[i]]] < maxmatch'
    ups = [[src(st) for st in c.body if isinstance(st, ast.AugAssign) and 'gotten' in src(st)] for c in conds]
    ctx.check('C04.MAXMATCH-SIB', same_cond and src(conds[0].test) == want and ups[0] == ups[1] == ['gotten1[omatch1[s[i]]] += 1', 'gotten2[omatch2[s[i]]] += 1'],
              f, conds[1], 'counting and filling loops accept a pair under the same test and count accepted pairs only',
              msg='the counting loop and the filling loop of the maxmatch selection differ (tests %s / %s, updates %s / %s)'
                  % (src(conds[0].test)[:50], src(conds[1].test)[:50], ups[0], ups[1]), construct='maxmatch sibling loops')
    its = [src(lp.iter) for lp in loops]
    ctx.check('C04.MAXMATCH-SIB', its == ['range(omatch1.size)', 'range(omatch1.size)'], f, loops[0], 'both loops visit s[i] for increasing i (distance order)',
              msg='maxmatch loops iterate %s' % its, construct='maxmatch loop order')
    fills = sorted(src(st) for st in conds[1].body if isinstance(st, ast.Assign))
    ctx.check('C04.MAXMATCH-SIB', fills == ['distance12[nmatch] = odistance12[s[i]]', 'match1[nmatch] = omatch1[s[i]]', 'match2[nmatch] = omatch2[s[i]]'], f, conds[1],
              'accepted pairs are stored with their own indices and distance', msg='filling loop stores %s' % fills, construct='maxmatch fill')
    resets = sorted(src(st) for st in walk_local(f.node) if isinstance(st, ast.Assign) and src(st.targets[0]) in ('gotten1[:]', 'gotten2[:]'))
    ctx.check('C04.MAXMATCH-SIB', resets == ['gotten1[:] = 0', 'gotten2[:] = 0'], f, loops[1], 'counters are reset between the two passes',
              msg='counters are not reset between the counting and the filling pass', construct='counter reset')


# --------------------------------------------------------------------------------------------- C05

def check_list_desc(ctx, repo, rule):
    n = 0
    for q in ('chunks.friendsoffriends', 'groups.__init__', 'spheregroup'):
        f = repo.func(SG, q)
        ctx.cover(f)
        for lp in walk_local(f.node):
            if not isinstance(lp, ast.For) or len(lp.body) != 2 or not isinstance(lp.target, ast.Name):
                continue
            a, b = lp.body
            if not (isinstance(a, ast.Assign) and isinstance(b, ast.Assign) and isinstance(a.targets[0], ast.Subscript) and isinstance(b.targets[0], ast.Subscript)):
                continue
            i = lp.target.id
            # next[i] = first[g[i]] ; first[g[i]] = i
            if src(a.targets[0].slice) == i and isinstance(a.value, ast.Subscript) and src(b.targets[0]) == src(a.value) and src(b.value) == i:
                n += 1
                it = lp.iter
                ok = isinstance(it, ast.Call) and call_name(it) == 'range' and len(it.args) == 3 and try_fold(it.args[1]) == -1 and try_fold(it.args[2]) == -1
                ctx.check(rule, ok, f, lp, '%s: intrusive list rebuilt while visiting members in descending order (%s)' % (q, src(it)),
                          msg='%s rebuilds the first/next lists while iterating %s: only descending order leaves first[g] at the lowest member and ends every chain at -1'
                              % (q, src(it)), construct='list rebuild order %s' % src(it))
    return n


def check_spheregroup(ctx, repo):
    f = repo.func(SG, 'spheregroup')
    fa = FA(f)
    asg = [c for c in walk_local(f.node) if isinstance(c, ast.Call) and isinstance(c.func, ast.Attribute) and c.func.attr == 'assign']
    fof = [c for c in walk_local(f.node) if isinstance(c, ast.Call) and isinstance(c.func, ast.Attribute) and c.func.attr == 'friendsoffriends']
    ok = len(asg) == 1 and len(fof) == 1 and src(asg[0].args[2]) == src(fof[0].args[2]) == f.params[2]
    ctx.check('C05.MARGIN', ok, f, asg[0] if asg else f.node, 'the cell margin and the linking length handed to friends-of-friends are the same variable',
              msg='assign margin (%s) and friends-of-friends link length (%s) differ' % (src(asg[0].args[2]) if asg else '?', src(fof[0].args[2]) if fof else '?'),
              construct='margin vs link length')
    cs = sorted(src(st.value).replace(' ', '') for st in walk_local(f.node) if isinstance(st, ast.Assign) and src(st.targets[0]) == 'chunksize')
    ctor = [c for c in walk_local(f.node) if isinstance(c, ast.Call) and isinstance(c.func, ast.Name) and c.func.id == 'chunks']
    ok = cs == ['4.0*linklength', 'max(4.0*linklength,0.1)'] and len(ctor) == 1 and src(ctor[0].args[2]) == 'chunksize'
    if ok:
        clamp = [st for st in walk_local(f.node) if isinstance(st, ast.Assign) and src(st.targets[0]) == 'chunksize' and src(st.value).replace(' ', '') == '4.0*linklength'][0]
        ok = isinstance(clamp._parent, ast.If) and src(clamp._parent.test).replace(' ', '') == 'chunksize<4.0*linklength' and clamp.lineno < ctor[0].lineno
    ctx.check('C05.MARGIN', bool(ok), f, ctor[0] if ctor else f.node, 'chunk size is clamped to >= 4 x link length before the cells are built',
              msg='chunk size is not clamped to 4*linklength before chunks(...) is built: %s' % cs, construct='chunksize clamp')
    # RESET
    for nm, val in (('firstgroup[:]', -1), ('multgroup[:]', 0)):
        st = assign_of(f.node, nm)
        ok = len(st) == 1 and try_fold(st[0].value) == val
        if ok:
            later = [lp for lp in walk_local(f.node) if isinstance(lp, ast.For) and lp.lineno > st[0].lineno and nm[:-3] + '[' in src(lp)]
            ok = bool(later)
        ctx.check('C05.RESET', ok, f, st[0] if st else f.node, '%s = %d precedes its rebuild loop (entries beyond the last group stay %d)' % (nm, val, val),
                  msg='%s is not reset to %d before it is rebuilt' % (nm, val), construct='reset %s' % nm)
    # RENUMBER
    lp = [n for n in walk_local(f.node) if isinstance(n, ast.For) and 'renumbered' in src(n)]
    ok = len(lp) == 1 and src(lp[0].iter) == 'range(npoints)'
    if ok:
        body = src(lp[0])
        ok = 'if not renumbered[i]' in body and 'ingroup[j] = iclump' in body and 'renumbered[j] = True' in body and 'j = nextgroup[j]' in body \
            and 'j = firstgroup[ingroup[i]]' in body and 'iclump += 1' in body
    ctx.check('C05.RENUMBER', bool(ok), f, lp[0] if lp else f.node, 'groups are renumbered 0,1,2,.. in order of their first member: ascending scan, whole chain labelled on first encounter',
              msg='the renumbering loop changed', construct='renumber loop')


def check_fof_merge(ctx, repo):
    f = repo.func(SG, 'chunks.friendsoffriends')
    fa = FA(f)
    mins = [c for c in walk_local(f.node) if isinstance(c, ast.Call) and call_name(c) == 'min' and 'minEarly' in src(c)]
    ctx.need(mins, 'friendsoffriends: minimum-earlier-label computation not found')
    for c in mins:
        other = [a for a in c.args if src(a) != 'minEarly'][0]
        st = c
        while not isinstance(st, ast.stmt):
            st = st._parent
        blk = st._parent
        body = blk.body if st in getattr(blk, 'body', []) else blk.orelse
        idx = body.index(st)
        root_loop = [x for x in body[:idx] if isinstance(x, ast.While) and src(x.test).replace(' ', '') == 'mapGroups[%s]!=%s' % (src(other), src(other))
                     and any(isinstance(y, ast.Assign) and src(y) == '%s = mapGroups[%s]' % (src(other), src(other)) for y in x.body)]
        ctx.check('C05.ROOT', bool(root_loop), f, st, 'an earlier label is followed through mapGroups to its root before the minimum is taken',
                  msg='the earlier label `%s` enters the minimum without being followed to its root (`while mapGroups[x] != x`): a group spanning several chunks '
                      'in a fork-and-rejoin pattern is merged under the wrong label and split in two' % src(other), construct='root following before min')
    # second pass runs whenever an earlier label was seen
    sec = [st for st in walk_local(f.node) if isinstance(st, ast.Assign) and src(st.targets[0]) == 'l' and 'firstGroup[k]' in src(st.value)]
    in_else = [st for st in sec if isinstance(st._parent, ast.If) and st in st._parent.orelse and src(st._parent.test).replace(' ', '') == 'minEarly==9*nPoints']
    ok2 = len(in_else) == 1 and src(in_else[0].value) == 'chunkGroup.firstGroup[k]'
    ctx.check('C05.ROOT', ok2, f, in_else[0] if in_else else f.node, 'the re-pointing pass runs for every group that met an earlier label',
              msg='the re-pointing / path-compression pass is skipped for some groups that met an earlier label (`%s`): two provisional trees reaching one '
                  'chunk are never merged' % (src(in_else[0].value) if in_else else 'not found'), construct='second pass entry')
    # second pass: path compression to minEarly
    comp = [x for x in walk_local(f.node) if isinstance(x, ast.While) and 'mapGroups[checkEarly] != checkEarly' in src(x.test) and any('tmpEarly' in src(y) for y in x.body)]
    ok = len(comp) == 1 and [src(y) for y in comp[0].body] == ['tmpEarly = mapGroups[checkEarly]', 'mapGroups[checkEarly] = minEarly', 'checkEarly = tmpEarly']
    ctx.check('C05.ROOT', ok, f, comp[0] if comp else f.node, 'second pass re-points every label on the path to the minimum (path compression)',
              msg='the path-compression pass of the merge changed', construct='path compression')
    fin = [x for x in walk_local(f.node) if isinstance(x, ast.For) and src(x.iter) == 'range(nMapGroups)']
    ok = len(fin) == 1 and 'mapGroups[i] = mapGroups[mapGroups[i]]' in src(fin[0]) and 'mapGroups[i] = nGroups' in src(fin[0])
    ctx.check('C05.ROOT', ok, f, fin[0] if fin else f.node, 'final pass maps every provisional label to the number of its root, ascending',
              msg='the final relabelling pass changed', construct='final relabel')


def check_full_scan(ctx, repo):
    f = repo.func(SG, 'groups.__init__')
    seps = [c for c in walk_local(f.node) if isinstance(c, ast.Call) and src(c.func) == 'self.separation']
    ctx.need(len(seps) == 1, 'groups.__init__: separation call not found')
    c = seps[0]
    inner = next((a for a in ancestors(c) if isinstance(a, ast.For)), None)
    outer = next((a for a in ancestors(inner) if isinstance(a, ast.For)), None) if inner is not None else None
    ok = inner is not None and outer is not None and src(inner.iter) == 'range(nTargets)' and src(outer.iter) == 'range(nTargets)' \
        and [src(a) for a in c.args] == ['coordinates[:, %s]' % outer.target.id, 'coordinates[:, %s]' % inner.target.id]
    ctx.check('C05.FULL-SCAN', ok, f, inner or f.node, 'every target is compared with all targets (range(nTargets)), earlier ones included',
              msg='the neighbour scan for target i visits `%s`: stale group tags of targets that were linked earlier are never repaired and a sparsely linked '
                  'chain splits' % (src(inner.iter) if inner is not None else '?'), construct='neighbour scan %s' % (src(inner.iter) if inner is not None else '?'))
    if outer is not None:
        skips = []
        for x in ast.walk(outer):
            if isinstance(x, (ast.Continue, ast.Break)):
                near = next((a for a in ancestors(x) if isinstance(a, (ast.For, ast.While))), None)
                if near is outer:
                    skips.append(x)
        rebuild = [lp for lp in outer.body if isinstance(lp, ast.For) and len(lp.body) == 2 and isinstance(lp.body[0], ast.Assign) and src(lp.body[0].targets[0]).startswith('nextGroup[')]
        ctx.check('C05.FULL-SCAN', not skips and len(rebuild) == 1, f, skips[0] if skips else outer,
                  'the first/next lists are rebuilt after every target (no early `continue` in the per-target loop)',
                  msg='the per-target loop of groups.__init__ can skip the rebuild of the first/next lists (`%s` under `%s`): later targets then walk stale '
                      'chains and isolated points keep the label -1' % ('continue' if skips else 'rebuild missing',
                                                                        src(skips[0]._parent.test) if skips and hasattr(skips[0]._parent, 'test') else ''),
                  construct='per-target loop skips list rebuild')
    le = [x for x in walk_local(f.node) if isinstance(x, ast.Compare) and src(x.left) == 'sep']
    ok = len(le) == 1 and isinstance(le[0].ops[0], ast.LtE) and src(le[0].comparators[0]) == f.params[2]
    ctx.check('C05.FULL-SCAN', ok, f, le[0] if le else f.node, 'two targets are friends when sep <= distance (separations do not exceed the linking length)',
              msg='the friend test is `%s`' % (src(le[0]) if le else '?'), construct='friend test')


def _emptiness_test(t, what):
    """True when test t says exactly 'the list `what` is not empty'."""
    ts = src(t).replace(' ', '')
    w = what.replace(' ', '')
    return ts in ('len(%s)>0' % w, 'len(%s)!=0' % w, 'len(%s)>=1' % w, w, '0<len(%s)' % w, 'len(%s)' % w)


def check_chunk_grid(ctx, repo, rule):
    """Rules about chunks.__init__ / cosDecMin / friendsoffriends shared by C04 and C05."""
    f = repo.func(SG, 'chunks.__init__')
    fa = FA(f)
    ctx.cover(f)
    # ---- exact end points: the code tests decBounds[..] == +-90.0 and takes cos() of the end points, so they must BE decMin / decMax
    eq90 = [c for c in walk_local(f.node) if isinstance(c, ast.Compare) and len(c.ops) == 1 and isinstance(c.ops[0], ast.Eq)
            and 'decBounds' in src(c.left) and try_fold(c.comparators[0]) in (90.0, -90.0)]
    builds = [st for st in walk_local(f.node) if isinstance(st, ast.Assign) and src(st.targets[0]) == 'self.decBounds']
    ctx.need(builds, 'chunks.__init__: construction of decBounds not found')
    b = builds[0]
    exact = isinstance(b.value, ast.Call) and call_name(b.value) == 'linspace'
    pins = [st for st in walk_local(f.node) if isinstance(st, ast.Assign) and isinstance(st.targets[0], ast.Subscript)
            and src(st.targets[0].value) == 'self.decBounds' and st.lineno > b.lineno]
    pinned = {src(st.targets[0].slice).replace(' ', ''): src(st.value) for st in pins}
    hi_ok = exact or pinned.get('self.nDec') == 'decMax' or pinned.get('-1') == 'decMax'
    lo_ok = exact or pinned.get('0') == 'decMin' or isinstance(b.value, ast.BinOp) and isinstance(b.value.op, ast.Add) and src(b.value.left) == 'decMin'
    if eq90:
        ctx.check(rule, hi_ok and lo_ok, f, b, 'the end points of decBounds are exactly decMin and decMax (the code compares them with +-90.0 and takes their cosine)',
                  msg='decBounds is built as `%s`: its last element is decMin + (decMax - decMin)*n/n, which rounding can carry to 90.00000000000001 when decMax '
                      'was clamped to 90; then `== 90.0` fails and cos() is negative, and spherematch / spheregroup raise "cosDecMin not positive" for valid input'
                      % src(b.value)[:70], construct='decBounds end points not exact')
    # ---- the number of RA cells of a slice is final before it is used to lay out that slice
    loops = [n for n in walk_local(f.node) if isinstance(n, ast.For) and any(isinstance(st, ast.Expr) and 'self.raBounds.append' in src(st) for st in n.body)]
    ctx.need(loops, 'chunks.__init__: slice loop not found')
    lp = loops[0]
    order = []
    for st in lp.body:
        for x in walk_local(st):
            if isinstance(x, ast.Subscript) and src(x.value) == 'self.nRa':
                order.append(('store' if isinstance(x.ctx, ast.Store) else 'load', st))
            elif isinstance(x, ast.Call) and src(x.func) == 'self.nRa.append':
                order.append(('store', st))
    layout = [st for st in lp.body if isinstance(st, ast.Expr) and 'self.raBounds.append' in src(st)]
    late = [st for k, st in order if k == 'store' and layout and st.lineno > layout[0].lineno]
    ctx.check(rule, not late, f, late[0] if late else lp, 'nRa[i] is final before raBounds[i] is laid out with it',
              msg='nRa[i] is changed (`%s`) after raBounds[i] has been built from the old value: the slice has more RA bounds than cells, '
                  'points of that slice are looked up in cells that do not exist' % (src(late[0])[:50] if late else ''), construct='nRa changed after layout')
    # ---- cosDecMin: the bound FARTHER from the equator
    g = repo.func(SG, 'chunks.cosDecMin')
    ctx.cover(g)
    text = src(g.node)
    two_sided = ('abs(' in text or 'np.abs(' in text or 'np.absolute(' in text or 'fabs' in text or 'min(' in text and text.count('cos(') >= 2)
    one_sided = not two_sided and any(isinstance(c, ast.Call) and call_name(c) in ('max', 'min', 'amax', 'amin') for c in walk_local(g.node))
    ctx.need(two_sided or one_sided or True, 'cosDecMin')
    ctx.check(rule, two_sided, g, g.node, 'cosDecMin(i) takes the cosine of the slice edge with the larger |dec|',
              msg='cosDecMin(i) does not compare the absolute values of the two edges: south of the equator it returns the cosine of the edge nearer '
                  'the equator, the RA margin there is too small and pairs across cell edges are lost', construct='cosDecMin one-sided')
    # ---- friendsoffriends visits every non-empty chunk
    h = repo.func(SG, 'chunks.friendsoffriends')
    ctx.cover(h)
    calls = [c for c in walk_local(h.node) if isinstance(c, ast.Call) and src(c.func) == 'self.chunkfriendsoffriends']
    ctx.need(calls, 'friendsoffriends: per-chunk grouping call not found')
    c = calls[0]
    conds = []
    child = c
    for a in ancestors(c):
        if isinstance(a, ast.If):
            conds.append(a.test)
        if isinstance(a, ast.For):
            continue
    lst = src(c.args[2]) if len(c.args) > 2 else 'self.chunkList[i][j]'
    extra = [t for t in conds if not _emptiness_test(t, lst)]
    ctx.check(rule, not extra, h, extra[0] if extra else c, 'every non-empty chunk is grouped (guards: %s)' % [src(t) for t in conds],
              msg='friendsoffriends skips a chunk under `%s`: a chunk whose members are all labelled already can be the only place where two earlier '
                  'groups meet, so linked points end up in different groups' % (src(extra[0])[:80] if extra else ''), construct='chunk skipped: ' + (src(extra[0])[:60] if extra else ''))


def check_append_only(ctx, repo, rule):
    """spherematch: between the candidate loop and the distance sort the pair lists only grow."""
    f = repo.func(SG, 'spherematch')
    ctx.cover(f)
    lists = set()
    for st in walk_local(f.node):
        if isinstance(st, ast.Assign) and isinstance(st.value, ast.Call) and call_name(st.value) == 'list' and not st.value.args:
            for t in st.targets:
                if isinstance(t, ast.Name):
                    lists.add(t.id)
    apps = {}
    for c in walk_local(f.node):
        if isinstance(c, ast.Call) and isinstance(c.func, ast.Attribute) and c.func.attr in ('append', 'extend') and isinstance(c.func.value, ast.Name) \
                and c.func.value.id in lists:
            apps.setdefault(c.func.value.id, []).append(c)
    pair_lists = {n for n, cs in apps.items() if any(any(isinstance(a, ast.For) for a in ancestors(c)) for c in cs)}
    ctx.need(len(pair_lists) >= 3, 'spherematch: pair lists (match1, match2, distance12) not found')
    cand_loops = set()
    for n_ in pair_lists:
        for c in apps[n_]:
            fors = [a for a in ancestors(c) if isinstance(a, ast.For)]
            if fors:
                cand_loops.add(id(fors[-1]))          # outermost loop around the append: the candidate loop
    bad = []
    for st in walk_local(f.node):
        if not any(isinstance(a, ast.For) and id(a) in cand_loops for a in ancestors(st)):
            continue
        if isinstance(st, ast.Delete):
            for t in st.targets:
                if any(isinstance(x, ast.Name) and x.id in pair_lists for x in ast.walk(t)):
                    bad.append(st)
        elif isinstance(st, (ast.Assign, ast.AugAssign)):
            for t in (st.targets if isinstance(st, ast.Assign) else [st.target]):
                if isinstance(t, ast.Subscript) and isinstance(t.value, ast.Name) and t.value.id in pair_lists:
                    bad.append(st)
                elif isinstance(t, ast.Name) and t.id in pair_lists:
                    bad.append(st)
        elif isinstance(st, ast.Expr) and isinstance(st.value, ast.Call) and isinstance(st.value.func, ast.Attribute) \
                and st.value.func.attr in ('pop', 'remove', 'clear', 'insert', 'sort', 'reverse') and isinstance(st.value.func.value, ast.Name) \
                and st.value.func.value.id in pair_lists:
            bad.append(st)
    ctx.check(rule, not bad, f, bad[0] if bad else f.node, 'the candidate loop only appends to %s' % sorted(pair_lists),
              msg='the candidate loop removes or overwrites entries of the pair lists (`%s`) before the global distance sort: a pair discarded here '
                  'cannot be the fallback partner when a closer point claims the first choice (maxmatch > 0), or is simply lost (maxmatch = 0)'
                  % (src(bad[0])[:60] if bad else ''), construct='pair list shrunk in the candidate loop: ' + (src(bad[0])[:50] if bad else ''))

"""C10 -- iterfit is order-independent and its mask honours weights and rejection limits."""

from ..fn import FA
from .bsplinelib import check_iterfit_order, check_iterfit_masks, check_iterfit_loop, check_ict, MATH, BSPLINE
from .c17 import check_thresholds, check_qdone

META = {
    'property': 'C10',
    'title': 'iterfit is order-independent and its mask honours weights and rejection limits',
    'technique': 'order typestate on iterfit (argsort / gather / scatter, sortedness of the constructor argument), '
                 'weight x mask dataflow into every fit call, abstract evaluation of the loop condition on the values the '
                 'completion flag can take, polynomial form of the rejection thresholds',
    'explanation': (
        'Decided (pydl/pydlutils/bspline.py iterfit, bspline.fit; pydl/pydlutils/math.py djs_reject): C10.UNSORT - all work arrays '
        'are gathers by xsort = xdata.argsort() and the returned mask is in the caller\'s order on every return path (initial '
        'all-True array or the scatter outmask[xsort] = maskwork); C10.CTOR-SORTED - the spline set is built from the sorted good '
        'abscissae; C10.WEIGHT-MASK - every sset.fit call is weighted by invwork*maskwork and the working mask starts from '
        'invvar > 0; C10.INMASK - djs_reject receives the previous working mask as inmask and the sorted data/model/weights; '
        'C10.MASK-EXITS - on every path to every return the returned mask has received the working mask (so non-positive weights are flagged False also on the early exits); C10.LIMITS - lower/upper reach djs_reject unchanged and djs_reject uses diff < -lower*sigma, diff > upper*sigma in both '
        'branches; C10.LOOP - the loop is bounded by iiter <= maxiter, runs once for maxiter = 0, and continues exactly while '
        'djs_reject reports a changed mask (condition evaluated on the values True/False the flag can take); C10.ROWS - fit uses every '
        'interval that holds at least one point. C10.REQUIREN - the loop that counts the good points per breakpoint interval for requiren can reach the last data point; NOT decided: equality with an independent rejection procedure, curve invariance '
        'under permutation (needs numerical determinism of the solver).'),
    'floors': {'C10.REQUIREN': 1, 'C10.UNSORT': 5, 'C10.CTOR-SORTED': 1, 'C10.WEIGHT-MASK': 2, 'C10.INMASK': 2, 'C10.LIMITS': 7, 'C10.LOOP': 5, 'C10.ROWS': 2, 'C10.MASK-EXITS': 1},
}


def run(ctx):
    from .bsplinelib import check_requiren
    check_requiren(ctx, ctx.repo, 'C10.REQUIREN')
    check_iterfit_order(ctx, ctx.repo, 'C10.UNSORT')
    check_iterfit_masks(ctx, ctx.repo)
    check_iterfit_loop(ctx, ctx.repo)
    f = ctx.repo.func(MATH, 'djs_reject')
    ctx.cover(f)
    check_thresholds(ctx, f, FA(f), 'C10.LIMITS')
    check_qdone(ctx, f, FA(f), 'C10.LOOP')
    check_ict(ctx, ctx.repo, 'C10.ROWS')

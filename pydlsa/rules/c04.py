"""C04 -- spherematch returns exactly the pairs closer than the match length."""

from .spherelib import check_cell_agree, check_rot_agree, check_dedup_wrap, check_spherematch, check_seam, check_chunk_grid, check_append_only
from .c18 import check_gcirc

META = {
    'property': 'C04',
    'title': 'spherematch returns exactly the pairs closer than the match length',
    'technique': 'AST isomorphism of the insert-side and lookup-side cell formulas, call-site agreement of the RA rotation, '
                 'guarded-insertion check, bound extraction of the wrap loops, lockstep/sibling-loop checks of the pair lists',
    'explanation': (
        'Decided (pydl/pydlutils/spheregroup.py): C04.CELL-AGREE - the declination-slice and RA-cell formulas of chunks.get (lookup) '
        'are isomorphic to those of chunks.getbounds (insertion) modulo the slice index; C04.ROT-AGREE - every RA handed to get / '
        'getbounds is fmod(ra + raOffset, 360), the form the cells were laid out with; C04.MARGIN - the margin used to enter second-list '
        'points and the radius compared with the separation are the same variable and chunk size >= 4 x it; C04.ALIGN - (i, k, sep) are '
        'appended together with sep computed from the same (i, k); C04.SORTED - output order is argsort of the distances and all three '
        'outputs are indexed by it; C04.MAXMATCH-SIB - the counting and the filling loop of the greedy selection have identical tests '
        'and counter updates, visit pairs in distance order and count accepted pairs only; C04.DEDUP-WRAP - a point is entered at most '
        'once per cell, out-of-range cell numbers wrap around the RA circle and the margin loops of getbounds can step to -1 / nRa so '
        'that they do. C04.SEAM - at least one of the two cooperating guards that keep the RA 0/360 seam away from the cells is present; C04.GCIRC - the separation is the haversine great-circle formula (shared with C18). C04.GRID - the declination bounds have exact end points (the code compares them with +-90 and takes their cosine), nRa[i] is final before raBounds[i] is laid out, cosDecMin compares absolute values, friendsoffriends groups every non-empty chunk; C04.APPEND-ONLY - the candidate loop only appends to the pair lists before the global distance sort. NOT decided: completeness of the spatial hash near poles and chunk edges, maximality of the greedy selection.'),
    'floors': {'C04.GRID': 2, 'C04.APPEND-ONLY': 1, 'C04.CELL-AGREE': 2, 'C04.ROT-AGREE': 2, 'C04.MARGIN': 2, 'C04.ALIGN': 2, 'C04.SORTED': 3, 'C04.MAXMATCH-SIB': 4, 'C04.DEDUP-WRAP': 6, 'C04.SEAM': 1, 'C04.GCIRC': 2},
}


def run(ctx):
    check_cell_agree(ctx, ctx.repo, 'C04.CELL-AGREE')
    n = check_rot_agree(ctx, ctx.repo, 'C04.ROT-AGREE')
    ctx.need(n >= 2, 'fewer RA-rotated call sites than confirmed by hand')
    check_dedup_wrap(ctx, ctx.repo, 'C04.DEDUP-WRAP')
    check_seam(ctx, ctx.repo, 'C04.SEAM')
    sub = type(ctx)(ctx.prop, ctx.repo, ctx.tier)
    check_gcirc(sub, ctx.repo)
    for o in sub.obligations:
        if o['rule'] == 'C18.HAVERSINE':
            o['rule'] = 'C04.GCIRC'
            ctx.obligations.append(o)
            ctx.rule_counts['C04.GCIRC'] = ctx.rule_counts.get('C04.GCIRC', 0) + 1
    for v in sub.violations:
        if v.rule == 'C18.HAVERSINE':
            v.rule = 'C04.GCIRC'
            v.prop = 'C04'
            ctx.violations.append(v)
    ctx.functions.update(sub.functions)
    check_spherematch(ctx, ctx.repo)
    check_chunk_grid(ctx, ctx.repo, 'C04.GRID')
    check_append_only(ctx, ctx.repo, 'C04.APPEND-ONLY')

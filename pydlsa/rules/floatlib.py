"""Shared rule: an array that receives computed (floating) values is not allocated in the dtype of an input.

`out = np.zeros(shape, dtype=param.dtype)` says "same type as the input".  That is right when `out` only ever receives elements of that
input (copies, selections, sums and products of same-typed data), and wrong as soon as it receives the result of a computation that is
floating whatever the input (trigonometry, division, interpolation, a linear solve, the result of another routine): for an integer
input every such store truncates.  The rule is a necessary condition of every clause that promises numerical values for 'any' input
array: with the truncation in place those values are wrong for integer input whatever the rest of the function does."""

import ast

from ..astutil import src, call_name, dotted, walk_local
from ..fn import FA
from .bsplinelib import floating_dtype

ALLOC = ('zeros', 'ones', 'empty', 'full', 'zeros_like', 'ones_like', 'empty_like')
# calls whose result has the type of their (array) argument: selections, copies, reorderings, integer-preserving reductions
TYPE_PRESERVING = {'copy', 'reshape', 'ravel', 'flatten', 'transpose', 'take', 'sort', 'argsort', 'nonzero', 'where', 'min', 'max', 'sum', 'cumsum',
                   'abs', 'absolute', 'tile', 'repeat', 'outer', 'minimum', 'maximum', 'clip', 'len', 'range', 'arange', 'astype', 'array', 'asarray',
                   'int', 'list', 'tuple', 'zeros', 'ones', 'empty', 'unique', 'concatenate', 'vstack', 'hstack', 'roll', 'flip', 'diff', 'prod'}


def _param_dtype(dt, fa, params, depth=0):
    """The parameter whose dtype the expression takes (P.dtype, or a name bound to it), else None."""
    if isinstance(dt, ast.Attribute) and dt.attr == 'dtype':
        b = dt.value
        while isinstance(b, (ast.Subscript, ast.Attribute)):
            b = b.value
        if isinstance(b, ast.Name):
            if b.id in params and any(isinstance(d, ast.arg) for d, _ in fa.defs(b)):
                return b.id
            v = fa.resolve(b)
            if v is not None and depth < 3:
                # a view / selection of a parameter
                for x in ast.walk(v):
                    if isinstance(x, ast.Name) and x.id in params:
                        return x.id
    if isinstance(dt, ast.Name) and depth < 3:
        v = fa.resolve(dt)
        if v is not None:
            return _param_dtype(v, fa, params, depth + 1)
    return None


def computed(e, fa, depth=0):
    """The construct that makes the value floating whatever its operands (a division, a call that is not a selection / copy), or None."""
    if depth > 6 or e is None:
        return None
    if isinstance(e, ast.BinOp):
        if isinstance(e.op, (ast.Div, ast.Pow)) and not (isinstance(e.op, ast.Pow) and isinstance(e.right, ast.Constant) and type(e.right.value) is int
                                                          and e.right.value >= 0):
            return e
        return computed(e.left, fa, depth + 1) or computed(e.right, fa, depth + 1)
    if isinstance(e, ast.UnaryOp):
        return computed(e.operand, fa, depth + 1)
    if isinstance(e, ast.Call):
        nm = call_name(e)
        if nm in TYPE_PRESERVING:
            for a in list(e.args) + [k.value for k in e.keywords] + ([e.func.value] if isinstance(e.func, ast.Attribute) else []):
                c = computed(a, fa, depth + 1)
                if c is not None:
                    return c
            return None
        return e
    if isinstance(e, ast.Constant):
        return e if isinstance(e.value, float) and e.value != int(e.value) else None
    if isinstance(e, (ast.Subscript, ast.Attribute)):
        return computed(e.value, fa, depth + 1)
    if isinstance(e, ast.IfExp):
        return computed(e.body, fa, depth + 1) or computed(e.orelse, fa, depth + 1)
    if isinstance(e, ast.Name):
        for d, v in fa.defs(e):
            if v is not None:
                c = computed(v, fa, depth + 1)
                if c is not None:
                    return c
            elif isinstance(d, ast.Assign) and isinstance(d.value, ast.Call) and call_name(d.value) not in TYPE_PRESERVING:
                return d.value                       # a, b = routine(...)
        return None
    return None


def foreign(e, fa, others, depth=0):
    """A (piece of a) different argument stored as it is: its type need not be the one the array was given."""
    if depth > 4 or e is None:
        return None
    if isinstance(e, ast.Name):
        if e.id in others and fa.is_param(e):
            return e
        for d, v in fa.defs(e):
            if v is not None:
                r = foreign(v, fa, others, depth + 1)
                if r is not None:
                    return r
        return None
    if isinstance(e, (ast.Subscript, ast.Attribute)):
        return foreign(e.value, fa, others, depth + 1)
    if isinstance(e, ast.BinOp):
        return foreign(e.left, fa, others, depth + 1) or foreign(e.right, fa, others, depth + 1)
    if isinstance(e, ast.UnaryOp):
        return foreign(e.operand, fa, others, depth + 1)
    return None


def check_float_alloc(ctx, repo, rule, funcs, consequence):
    """funcs: [(module path, qualified name)].  Returns the number of allocations looked at."""
    n = 0
    for rel, q in funcs:
        f = repo.func(rel, q)
        fa = FA(f)
        ctx.cover(f)
        params = set(f.params) | {a.arg for a in [f.node.args.vararg, f.node.args.kwarg] if a is not None}
        for st in walk_local(f.node):
            if not (isinstance(st, ast.Assign) and len(st.targets) == 1):
                continue
            c = st.value
            # only an array bound as allocated can truncate later stores (`np.zeros(..) + v` is promoted like any arithmetic)
            alloc = c if (isinstance(c, ast.Call) and call_name(c) in ALLOC and any(k.arg == 'dtype' for k in c.keywords)) else None
            if alloc is None and isinstance(c, ast.Call) and call_name(c) in ('zeros_like', 'ones_like', 'empty_like') and c.args \
                    and not any(k.arg == 'dtype' for k in c.keywords):
                # np.empty_like(P): the dtype of P
                alloc = c
                dt = ast.Attribute(value=c.args[0], attr='dtype', ctx=ast.Load())
                ast.copy_location(dt, c)
            elif alloc is not None:
                dt = [k.value for k in alloc.keywords if k.arg == 'dtype'][0]
            if alloc is None:
                continue
            is_float = floating_dtype(dt, fa)
            p = _param_dtype(dt, fa, params)
            if p is None and is_float:
                # np.result_type(P.dtype, np.float32): the repaired spelling still counts as an instance
                for x in ast.walk(dt):
                    p = p or _param_dtype(x, fa, params)
            if p is None:
                continue
            t = st.targets[0]
            tname = src(t)
            # only arrays the caller gets to see: returned (possibly as part of the result), or kept on the object
            if isinstance(t, ast.Name):
                seen = any(isinstance(x, ast.Name) and x.id == t.id for r in walk_local(f.node) if isinstance(r, ast.Return) and r.value is not None
                           for x in ast.walk(r.value))
                if not seen:
                    # ... or that the function itself goes on to read (a work array whose values decide the result)
                    seen = any(isinstance(x, ast.Name) and x.id == t.id and isinstance(x.ctx, ast.Load) and not (
                        isinstance(getattr(x, '_parent', None), ast.Subscript) and isinstance(x._parent.ctx, ast.Store)) for x in walk_local(f.node))
                if not seen:
                    continue
            elif not (isinstance(t, ast.Attribute) and isinstance(t.value, ast.Name) and t.value.id == 'self'):
                continue
            # what the array receives
            recv = []
            for s2 in walk_local(f.node):
                if isinstance(s2, ast.Assign) and len(s2.targets) == 1 and isinstance(s2.targets[0], ast.Subscript) and src(s2.targets[0].value) == tname:
                    recv.append((s2, s2.value))
                elif isinstance(s2, ast.AugAssign) and (src(s2.target) == tname or (isinstance(s2.target, ast.Subscript) and src(s2.target.value) == tname)):
                    recv.append((s2, s2.value))
            n += 1
            bad = None
            for s2, v in ([] if is_float else recv):
                cc = computed(v, fa) or foreign(v, fa, params - {p})
                if cc is not None:
                    bad = (s2, cc)
                    break
            ctx.check(rule, bad is None, f, st,
                      '%s: `%s` %s' % (q, src(st)[:70], ('is floating whatever the dtype of `%s`' % p) if is_float else ('has the dtype of `%s` and only receives elements of that type' % p)),
                      msg='%s allocates `%s` in the dtype of its argument `%s`, then stores a computed value into it (`%s`, from `%s`): for an integer '
                          '`%s` the value is truncated, so %s' % (q, src(st)[:70], p, src(bad[0])[:60] if bad else '', src(bad[1])[:50] if bad else '', p, consequence),
                      construct='%s: %s <- %s' % (q, src(st)[:50], src(bad[1])[:40] if bad else ''))
    return n

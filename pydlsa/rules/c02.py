"""C02 -- yanny: the meaning of a file does not depend on its surface syntax.

The parser is a chain of regexes over arbitrary text; its layout independence is a property of a
language.  Decided here are the structural clauses only: exact-name struct selection, agreement of
collect/strip patterns, <n> == [n] everywhere, raw-mode symmetry, upper-cased dispatch, decoding of
binary file objects, CR-tolerant continuation joining, exact integer conversion."""

import ast

from .. import AnalysisError
from ..astutil import path_conditions, src, call_name, dotted, walk_local, try_fold, ancestors
from ..fn import FA
from ..normal import canon_test
from .. import rx
from .yannylib import row_dispatch_tests, YANNY, YannyClass
from .c01 import check_intconv, upper_derived

META = {
    'property': 'C02',
    'title': 'yanny: the meaning of a file does not depend on its surface syntax',
    'technique': 'regex-AST agreement and character-class queries (re._parser), def-use checks on the struct-selection '
                 'predicate and on every bracket test, branch dominance for raw mode and binary decoding',
    'explanation': (
        'Decided (pydl/pydlutils/yanny.py): C02.NAME-EXACT - wherever a struct definition is selected by name '
        '(yanny.type) the selection compares the parsed structure name for equality, never a substring search over the '
        'definition text; C02.PAT-PAIR - the pattern that collects struct (enum) definitions equals the pattern that '
        'strips them (regex ASTs, groups removed); C02.ANGLE - every regex class admitting [ also admits < (] and >), '
        'type() canonicalises <,> to [,] before caching, and every string test for a bracket either pairs it with the '
        'angle form or operates on the canonicalised type text; C02.RAW - conversion of tables to record arrays happens '
        'only under `not self.raw` and convert() is applied in both modes; C02.DISPATCH - a data row is recognised by the '
        'upper-cased first word; C02.BINARY - text from a file object whose mode contains b is decoded before parsing; '
        'C02.CONT - the continuation-joining pattern tolerates CR (and blanks) between the backslash and the newline; '
        'C02.COMMENT-FIRST - comment-only lines are discarded before tokenising; C02.INTCONV - integer cells are converted by int() on the token text. C02.PER-INSTANCE - every container that methods fill through self is created per object in __init__ (no class-level mutable shared by all files); C02.TRIM - a line reaches the row/pair patterns trimmed on both sides whatever path trailing_comment takes; C02.CHARLEN - a char[] column without declared width takes the maximum of the value LENGTHS, and the maximum over a table without rows has a default; C02.TOKEN-WS - a bare word is split off with re.split over a whitespace class (blank and tab), maxsplit 1; C02.BINARY also: text/binary is decided without requiring a .mode attribute of the file object. C02.CHAR-EXACT - a column is taken for character data only when its base type equals `char` (no substring test on the type text); C02.CACHE-KEY - the per-object memos of type() / isarray() are keyed by table and column separately (nested dictionaries or a tuple), never by the two names glued together; C02.BLANK-SKIP - a line holding only blanks, tabs or CR is skipped before it is tokenised (get_token indexes the first character); C02.BRACE-TRIM - the pattern of a brace-wrapped value leaves the blanks after `{` and before `}` outside the captured value; C02.QUOTE-PAIR - what get_token removes from a quoted word is exactly what protect added (no unescaping on one side only); NOT decided: comment/quote parity, '
        'token splitting, interleaved rows, char[] sizing, CRLF handling beyond the continuation pattern - these are '
        'statements about the language the regex chain accepts.'),
    'floors': {'C02.CHAR-EXACT': 1, 'C02.NAME-EXACT': 1, 'C02.PAT-PAIR': 2, 'C02.ANGLE': 8, 'C02.RAW': 2, 'C02.DISPATCH': 1, 'C02.BINARY': 2,
               'C02.CONT': 1, 'C02.INTCONV': 4, 'C02.COMMENT-FIRST': 1, 'C02.PER-INSTANCE': 2, 'C02.TRIM': 2, 'C02.CHARLEN': 4,
               'C02.TOKEN-WS': 1, 'C02.BLANK-SKIP': 1, 'C02.BRACE-TRIM': 1, 'C02.QUOTE-PAIR': 1, 'C02.CACHE-KEY': 2},
}


def check_name_exact(ctx, yc):
    f = yc.method('type')
    fa = FA(f)
    sel = []
    for n in walk_local(f.node):
        if isinstance(n, (ast.ListComp, ast.GeneratorExp, ast.SetComp)):
            for g in n.generators:
                if "_symbols['struct']" in src(g.iter) or '_symbols["struct"]' in src(g.iter):
                    sel.append((n, g))
        if isinstance(n, ast.For) and "_symbols['struct']" in src(n.iter):
            sel.append((n, n))
    if not sel:
        # selection by key lookup in a mapping registered by _parse is exact by construction
        lookups = [s for s in walk_local(f.node) if isinstance(s, ast.Subscript) and 'struct' in src(s.value) and 'structure' in src(s.slice)]
        ctx.need(lookups, 'yanny.type: cannot see how the struct definition is selected')
        ctx.ok('C02.NAME-EXACT', f, lookups[0], 'definition selected by exact key lookup: ' + src(lookups[0]))
        return
    for n, g in sel:
        var = g.target.id if isinstance(g.target, ast.Name) else None
        conds = g.ifs if not isinstance(g, ast.For) else [s.test for s in g.body if isinstance(s, ast.If)]
        ctx.need(conds, 'yanny.type: struct selection has no condition')
        for c in conds:
            sub = []
            eq_ok = False
            for x in ast.walk(c):
                if isinstance(x, ast.Call) and call_name(x) in ('find', 'index', 'rfind', 'count', 'startswith', 'endswith', '__contains__') \
                        and any('structure' in src(a) for a in x.args):
                    sub.append(src(x))
                if isinstance(x, ast.Compare) and any(isinstance(o, (ast.In, ast.NotIn)) for o in x.ops) and 'structure' in src(x):
                    sub.append(src(x))
                if isinstance(x, ast.Call) and call_name(x) in ('search', 'match') and 'structure' in src(x) and dotted(x.func.value) == 're':
                    # re.search(structure, text): substring search in disguise unless anchored; treat as substring
                    if x.args and 'structure' in src(x.args[0]) and not isinstance(x.args[0], ast.Constant):
                        sub.append(src(x))
                if isinstance(x, ast.Compare) and len(x.ops) == 1 and isinstance(x.ops[0], ast.Eq):
                    sides = [x.left, x.comparators[0]]
                    if any('structure' in src(s) for s in sides) and any(('group' in src(s)) or ('name' in src(s).lower()) for s in sides):
                        eq_ok = True
            ctx.check('C02.NAME-EXACT', eq_ok and not sub, f, c,
                      'struct definition selected by equality with the parsed structure name: ' + src(c)[:90],
                      msg='yanny.type selects the struct definition by substring search (%s): structure names that are '
                          'substrings of one another or equal to a column name elsewhere select the wrong definition'
                          % (', '.join(sub) or src(c)[:60]),
                      construct='struct selection: ' + src(c)[:100])


def check_pat_pair(ctx, yc):
    f = yc.method('_parse')
    lits = rx.regex_literals(f.node)
    for kw in ('struct', 'enum'):
        finds = [(c, p) for c, fn, p, _ in lits if fn == 'findall' and 'typedef' in p and kw in p]
        subs = [(c, p) for c, fn, p, _ in lits if fn == 'sub' and 'typedef' in p and kw in p]
        ctx.need(finds and subs, '_parse: collect/strip patterns for typedef %s not found' % kw)
        a = rx.normal(finds[0][1])
        b = rx.normal(subs[0][1])
        ctx.check('C02.PAT-PAIR', a == b, f, subs[0][0],
                  'typedef %s: the collecting pattern equals the stripping pattern (regex ASTs)' % kw,
                  msg='typedef %s definitions are collected with %r but stripped with %r: residue of a definition would be '
                      'parsed as keyword pairs (or a definition would be lost)' % (kw, finds[0][1], subs[0][1]),
                  construct='typedef %s collect/strip patterns' % kw)
        # the stripped text replaces the definition by nothing and is re-bound to the text that is scanned for rows
    return lits


def check_angle(ctx, yc):
    n = 0
    for m, f in sorted(yc.methods.items()):
        for c, fn, pat, pnode in rx.regex_literals(f.node):
            try:
                cls = rx.classes(pat)
            except Exception as e:
                raise AnalysisError('C02: regex %r in yanny.%s does not parse: %s' % (pat, m, e))
            # a bare literal bracket outside any class can never match the legacy angle form
            def bare(items):
                out = []
                for it in items:
                    if it[0] == 'LITERAL' and it[1] in (91, 93):
                        out.append(chr(it[1]))
                    elif it[0] in ('MAX_REPEAT', 'MIN_REPEAT'):
                        out += bare(it[3])
                    elif it[0] == 'BRANCH':
                        for b in it[1]:
                            out += bare(b)
                return out
            for ch in bare(rx.normal(pat)):
                n += 1
                ctx.fail('C02.ANGLE', f, c, 'regex in %s: %s' % (m, pat),
                         'yanny.%s: regex %r matches a literal %r only, never the legacy %r array notation' % (m, pat, ch, '<' if ch == '[' else '>'))
            for k in cls:
                neg, lits, cats, rng = k
                if neg:
                    continue
                for sq, an in (('[', '<'), (']', '>')):
                    if ord(sq) in lits:
                        n += 1
                        ctx.check('C02.ANGLE', ord(an) in lits, f, c,
                                  'yanny.%s: regex class admitting %r also admits %r (%r)' % (m, sq, an, pat),
                                  msg='yanny.%s: regex %r accepts %r but not the legacy %r array notation' % (m, pat, sq, an),
                                  construct='regex class in %s: %s' % (m, pat))
    # type(): canonicalisation before the cache
    f = yc.method('type')
    fa = FA(f)
    stores = [st for st in walk_local(f.node) if isinstance(st, ast.Assign) and isinstance(st.targets[0], ast.Subscript)
              and 'cache' in src(st.targets[0].value)
              and not isinstance(st.value, ast.Dict) and src(st.value) not in ('dict()', 'OrderedDict()')]
    ctx.need(stores, 'yanny.type: cache store not found')
    for st in stores:
        v = fa.deep(st.value)
        s = src(v)
        ok = _canonicalises(v, fa)
        n += 1
        ctx.check('C02.ANGLE', ok, f, st, 'type(): <,> are canonicalised to [,] before the type text is cached and returned',
                  msg='type() caches the type text without replacing < by [ and > by ]: legacy <n> columns are not recognised '
                      'as arrays downstream', construct='type cache store: ' + s[:100])
    # any cache store of a type text outside type() must canonicalise as well
    for m, f in sorted(yc.methods.items()):
        if m == 'type':
            continue
        fa2 = None
        for st in walk_local(f.node):
            if isinstance(st, ast.Assign) and len(st.targets) == 1 and isinstance(st.targets[0], ast.Subscript):
                base = st.targets[0].value
                if fa2 is None:
                    fa2 = FA(f)
                bs = src(fa2.deep(base)) if isinstance(base, ast.Name) else src(base)
                tgt_chain = src(base)
                is_type_cache = '_struct_type_caches' in bs or '_struct_type_caches' in tgt_chain
                if not is_type_cache and isinstance(base, ast.Name):
                    for d, v in fa2.defs(base):
                        if d is not None and '_struct_type_caches' in src(d):
                            is_type_cache = True
                if is_type_cache and not isinstance(fa2.deep(st.value), (ast.Dict,)) and 'dict()' not in src(st.value):
                    s = src(fa2.deep(st.value))
                    ok = _canonicalises(fa2.deep(st.value), fa2)
                    n += 1
                    ctx.check('C02.ANGLE', ok, f, st, 'yanny.%s fills the type cache with canonicalised text' % m,
                              msg='yanny.%s fills the type cache without canonicalising <n> to [n]' % m,
                              construct='type cache store in %s: %s' % (m, s[:80]))
    # string-level bracket tests
    for m, f in sorted(yc.methods.items()):
        fa3 = None
        for x in walk_local(f.node):
            recv = None
            ch = None
            if isinstance(x, ast.Call) and call_name(x) in ('find', 'index', 'rfind', 'rindex', 'count', 'split', 'partition') \
                    and isinstance(x.func, ast.Attribute) and x.args and isinstance(x.args[0], ast.Constant) \
                    and x.args[0].value in ('[', ']'):
                recv, ch = x.func.value, x.args[0].value
            elif isinstance(x, ast.Compare) and len(x.ops) == 1 and isinstance(x.ops[0], (ast.In, ast.NotIn)) \
                    and isinstance(x.left, ast.Constant) and x.left.value in ('[', ']'):
                recv, ch = x.comparators[0], x.left.value
            if recv is None:
                continue
            if fa3 is None:
                fa3 = FA(f)
            n += 1
            ok, why = _canonical_text(recv, fa3, yc)
            if not ok:
                # paired with the angle form in the same boolean expression?
                an = '<' if ch == '[' else '>'
                top = x
                for a in ancestors(x):
                    if isinstance(a, (ast.BoolOp, ast.BinOp, ast.Compare, ast.UnaryOp)):
                        top = a
                    elif isinstance(a, ast.stmt):
                        break
                    else:
                        break
                if ("'%s'" % an) in src(top) and src(recv) in src(top).replace(src(x), '', 1):
                    ok, why = True, 'paired with the %r form in the same test' % an
            ctx.check('C02.ANGLE', ok, f, x, 'yanny.%s: bracket test `%s` %s' % (m, src(x)[:50], why),
                      msg='yanny.%s tests for %r in text that has not been canonicalised and does not test the legacy %r form: '
                          '<n> array notation is treated differently from [n]' % (m, ch, '<' if ch == '[' else '>'),
                      construct='bracket test in %s: %s' % (m, src(x)[:80]))
    return n


def _canonicalises(e, fa):
    """Does the expression replace < by [ and > by ] in the text it builds: a chain of str.replace, or str.translate with a table that
    maps exactly these pairs (str.maketrans('<>', '[]') or the dictionary form)."""
    s = src(e)
    if ".replace('<', '[')" in s and ".replace('>', ']')" in s:
        return True
    for c in ast.walk(e):
        if isinstance(c, ast.Call) and isinstance(c.func, ast.Attribute) and c.func.attr == 'translate' and len(c.args) == 1:
            t = c.args[0]
            if isinstance(t, ast.Name) and fa is not None:
                t = fa.resolve(t) or t
            if isinstance(t, ast.Call) and isinstance(t.func, ast.Attribute) and t.func.attr == 'maketrans' and len(t.args) >= 2 \
                    and all(isinstance(a, ast.Constant) and isinstance(a.value, str) for a in t.args[:2]) and len(t.args[0].value) == len(t.args[1].value):
                m = dict(zip(t.args[0].value, t.args[1].value))
                if m.get('<') == '[' and m.get('>') == ']':
                    return True
            if isinstance(t, ast.Call) and isinstance(t.func, ast.Attribute) and t.func.attr == 'maketrans' and len(t.args) == 1 and isinstance(t.args[0], ast.Dict):
                t = t.args[0]
            if isinstance(t, ast.Dict):
                m = {}
                for k, v in zip(t.keys, t.values):
                    kk = try_fold(k) if k is not None else None
                    if isinstance(k, ast.Call) and call_name(k) == 'ord' and k.args and isinstance(k.args[0], ast.Constant):
                        kk = k.args[0].value
                    if isinstance(kk, int):
                        kk = chr(kk)
                    m[kk] = v.value if isinstance(v, ast.Constant) else None
                if m.get('<') == '[' and m.get('>') == ']':
                    return True
    return False


def _canonical_text(e, fa, yc, depth=0):
    """Is the text the result of yanny.type() (canonicalised), or explicitly canonicalised here?"""
    if depth > 4:
        return False, ''
    if _canonicalises(e, fa):
        return True, 'on text canonicalised in place'
    if isinstance(e, ast.Name) and fa.is_param(e) and e.id in fa.func.params and fa.func.name not in ('type', 'basetype'):
        # the parameter of a helper: canonical when every call site within the class hands it canonical text
        f = fa.func
        pos = f.params.index(e.id)
        bound = not any(isinstance(d, ast.Name) and d.id == 'staticmethod' for d in f.node.decorator_list)
        sites = []
        for m2, g in sorted(yc.methods.items()):
            for c in walk_local(g.node):
                if isinstance(c, ast.Call) and isinstance(c.func, ast.Attribute) and c.func.attr == f.name and isinstance(c.func.value, ast.Name) \
                        and c.func.value.id in ('self', 'cls', 'yanny'):
                    k = pos - (1 if bound else 0)
                    a = c.args[k] if 0 <= k < len(c.args) else next((kw.value for kw in c.keywords if kw.arg == e.id), None)
                    sites.append((g, a))
        if sites and all(a is not None and _canonical_text(a, FA(g), yc, depth + 1)[0] for g, a in sites):
            return True, 'on a parameter that receives the canonical text of self.type() at every call site (%d)' % len(sites)
    if isinstance(e, ast.Call) and isinstance(e.func, ast.Attribute) and isinstance(e.func.value, ast.Name) \
            and e.func.value.id == 'self' and e.func.attr in ('type', 'basetype'):
        return True, 'on the canonical text returned by self.%s()' % e.func.attr
    if isinstance(e, ast.Name):
        ds = fa.defs(e)
        if ds and all(v is not None and _canonical_text(v, fa, yc, depth + 1)[0] for d, v in ds):
            return True, 'on the canonical text returned by self.type()'
    return False, ''


def check_raw(ctx, yc):
    f = yc.method('_parse')
    fa = FA(f)
    conv = [c for c in walk_local(f.node) if isinstance(c, ast.Call) and (
        (call_name(c) in ('recarray', 'view') and 'recarray' in src(c)) or (call_name(c) in ('zeros', 'empty', 'array', 'fromrecords') and 'dtype' in src(c)))]
    ctx.need(conv, '_parse: record-array conversion not found')
    for c in conv:
        under = False
        for t, pol in path_conditions(c):
            t = canon_test(t)
            if isinstance(t, ast.UnaryOp) and isinstance(t.op, ast.Not):
                t, pol = t.operand, not pol
            if src(t) == 'self.raw' and not pol:
                under = True
        ctx.check('C02.RAW', under, f, c, '_parse: `%s` runs only under `not self.raw`' % src(c)[:50],
                  msg='_parse converts tables to record arrays outside the `not self.raw` branch: raw mode no longer returns plain lists',
                  construct='recarray conversion: ' + src(c)[:60])
    convs = [c for c in walk_local(f.node) if isinstance(c, ast.Call) and isinstance(c.func, ast.Attribute) and c.func.attr == 'convert']
    ctx.need(convs, '_parse: convert() calls not found')
    for c in convs:
        under = any(isinstance(a, ast.If) and 'raw' in src(a.test) for a in ancestors(c))
        ctx.check('C02.RAW', not under, f, c, '_parse: convert() is applied in raw and normal mode alike',
                  msg='_parse applies convert() under a raw-mode test: raw and normal mode would return different values',
                  construct='convert under raw test')


def check_dispatch(ctx, yc):
    f = yc.method('_parse')
    fa = FA(f)
    disp = row_dispatch_tests(f)
    ctx.need(disp, '_parse: row dispatch test not found')
    for c in disp:
        ok = upper_derived(c.left, fa)
        # and the key comes from the first token of the line
        ctx.check('C02.DISPATCH', ok, f, c, '_parse: row-vs-pair decided on `%s` = upper-cased first token' % src(c.left),
                  msg='_parse decides row-vs-pair on a key that is not upper-cased: a lower-case structure name on a data row '
                      'would be read as a keyword pair', construct='dispatch on ' + src(c.left))


def check_binary(ctx, yc):
    f = yc.method('__init__')
    fa = FA(f)
    dec = [c for c in walk_local(f.node) if isinstance(c, ast.Call) and call_name(c) == 'decode']
    ok = None
    by_content = False
    for c in dec:
        for a in ancestors(c):
            if isinstance(a, ast.If) and "'b' in" in src(a.test) and 'mode' in src(a.test):
                ok = c
            if isinstance(a, ast.If) and isinstance(a.test, ast.Call) and call_name(a.test) == 'isinstance' and len(a.test.args) == 2 \
                    and 'bytes' in src(a.test.args[1]):
                ok = c
                by_content = True
    # a file-like object need not have a .mode (io.StringIO, io.BytesIO, gzip): reading the attribute unguarded refuses them
    modes = [n for n in walk_local(f.node) if isinstance(n, ast.Attribute) and n.attr == 'mode' and isinstance(n.ctx, ast.Load)]
    unguarded = []
    for n in modes:
        in_try = any(isinstance(a, ast.Try) and any(n in list(ast.walk(b)) for b in a.body) and any(
            h.type is None or 'AttributeError' in src(h.type) or 'Exception' in src(h.type) for h in a.handlers) for a in ancestors(n))
        has_test = any(isinstance(a, ast.If) and 'hasattr' in src(a.test) and 'mode' in src(a.test) for a in ancestors(n))
        if not (in_try or has_test):
            unguarded.append(n)
    ctx.check('C02.BINARY', not unguarded, f, unguarded[0] if unguarded else (ok or f.node),
              '__init__ decides text / binary without requiring a .mode attribute of the file object (%s)' % ('type of the content read' if by_content else 'guarded'),
              msg='__init__ reads `%s` of whatever file object it is given: io.StringIO and io.BytesIO have no mode attribute (gzip files have an int), so '
                  '"text or binary file objects" holds only for handles returned by open()' % (src(unguarded[0]) if unguarded else ''),
              construct='unguarded .mode of the file object')
    parse_calls = [c for c in walk_local(f.node) if isinstance(c, ast.Call) and isinstance(c.func, ast.Attribute) and c.func.attr == '_parse']
    ctx.need(parse_calls, '__init__: _parse() call not found')
    good = ok is not None
    if good:
        # the decoded text is what ends up in _contents: the decode statement dominates... the assignment of _contents
        st = ok
        while not isinstance(st, ast.stmt):
            st = st._parent
        good = isinstance(st, ast.Assign) and isinstance(st.targets[0], ast.Name)
        if good:
            nm = st.targets[0].id
            assigns = [s for s in walk_local(f.node) if isinstance(s, ast.Assign) and src(s.targets[0]) == 'self._contents'
                       and isinstance(s.value, ast.Name) and s.value.id == nm]
            good = bool(assigns) and st.lineno < assigns[0].lineno
    ctx.check('C02.BINARY', good, f, ok or f.node, '__init__: content of a file object opened in binary mode is decoded before it becomes _contents',
              msg='__init__ does not decode the content of binary file objects before parsing', construct='binary decode in __init__')


def check_cont(ctx, yc):
    f = yc.method('_parse')
    lits = rx.regex_literals(f.node)
    def has_cont(p):
        try:
            items = rx.normal(p)
        except Exception:
            return False
        return ('LITERAL', 92) in items and ('LITERAL', 10) in items
    cont = [(c, p) for c, fn, p, _ in lits if fn == 'sub' and has_cont(p)]
    ctx.need(cont, '_parse: continuation-joining re.sub not found')
    for c, p in cont:
        items = rx.normal(p)
        ok = False
        if len(items) == 3 and items[0] == ('LITERAL', 92) and items[2] == ('LITERAL', 10) and items[1][0] == 'MAX_REPEAT' \
                and items[1][1] == 0:
            inner = items[1][3][0] if len(items[1][3]) == 1 else None
            if inner is not None and rx.item_admits(inner, '\r') and rx.item_admits(inner, ' ') and rx.item_admits(inner, '\t'):
                ok = True
        repl = try_fold(c.args[1]) if len(c.args) > 1 else None
        ctx.check('C02.CONT', ok and repl == ' ', f, c,
                  'continuation lines: backslash, any blanks/tabs/CR, newline are replaced by one blank (%r)' % p,
                  msg='the continuation-joining pattern %r is not exactly "backslash, any blanks/tabs/CR, newline" replaced by one blank: it either '
                      'misses CR before the newline (CRLF files with continued rows read differently) or swallows blanks that belong to the cells '
                      'around the continuation' % p,
                  construct='continuation pattern %r' % p)


def check_comment_first(ctx, yc):
    """Comment-only lines are discarded before any tokenising: a `^\\s*#` test with `continue` precedes get_token in the line loop."""
    f = yc.method('_parse')
    fa = FA(f)
    toks = [c for c in walk_local(f.node) if isinstance(c, ast.Call) and isinstance(c.func, ast.Attribute) and c.func.attr == 'get_token'
            and any(isinstance(a, ast.For) and 'split' in src(a.iter) for a in ancestors(c))]
    ctx.need(toks, '_parse: tokenising call in the line loop not found')
    loop = next(a for a in ancestors(toks[0]) if isinstance(a, ast.For) and 'split' in src(a.iter))
    line = loop.target.id
    found = None
    for st in loop.body:
        if isinstance(st, ast.If) and st.body and isinstance(st.body[-1], ast.Continue):
            t = st.test
            for c in ast.walk(t):
                if isinstance(c, ast.Call) and isinstance(c.func, ast.Attribute) and c.func.attr in ('search', 'match') and c.args and src(c.args[-1]) == line:
                    pat = None
                    recv = c.func.value
                    if isinstance(recv, ast.Name):
                        d = fa.resolve(recv)
                        if d is not None and isinstance(d, ast.Call) and d.args and isinstance(d.args[0], ast.Constant):
                            pat = d.args[0].value
                    elif len(c.args) == 2 and isinstance(c.args[0], ast.Constant):
                        pat = c.args[0].value
                    if pat is not None:
                        items = rx.normal(pat)
                        if len(items) >= 2 and items[-1] == ('LITERAL', 35) and all(i[0] in ('AT', 'MAX_REPEAT') for i in items[:-1]):
                            found = st
                if isinstance(c, ast.Call) and isinstance(c.func, ast.Attribute) and c.func.attr == 'startswith' and c.args and try_fold(c.args[0]) == '#' \
                        and line in src(c.func.value) and ('strip' in src(c.func.value) or 'lstrip' in src(c.func.value)):
                    found = st
    ok = found is not None and found.lineno < toks[0].lineno
    ctx.check('C02.COMMENT-FIRST', ok, f, found or loop, 'comment-only lines (^\\s*#) are skipped before the line is tokenised',
              msg='_parse no longer discards comment-only lines before tokenising: a comment line with more than one # or an odd number of quotes is stored '
                  'as a keyword pair', construct='comment-line filter')


def check_blank_skip(ctx, yc):
    """C02.BLANK-SKIP: a line holding only blanks / tabs / CR is skipped before it is tokenised (get_token indexes string[0])."""
    f = yc.method('_parse')
    fa = FA(f)
    toks = [c for c in walk_local(f.node) if isinstance(c, ast.Call) and isinstance(c.func, ast.Attribute) and c.func.attr == 'get_token'
            and any(isinstance(a, ast.For) and 'split' in src(a.iter) for a in ancestors(c))]
    ctx.need(toks, '_parse: tokenising call in the line loop not found')
    loop = next(a for a in ancestors(toks[0]) if isinstance(a, ast.For) and 'split' in src(a.iter))
    line = loop.target.id
    found = None
    stripped_before = False
    for st in loop.body:
        if st.lineno >= toks[0].lineno:
            break
        if isinstance(st, ast.Assign) and src(st.targets[0]) == line and src(st.value).replace(' ', '') in ('%s.strip()' % line,):
            stripped_before = True
        if isinstance(st, ast.If) and st.body and isinstance(st.body[-1], ast.Continue):
            vals = st.test.values if isinstance(st.test, ast.BoolOp) and isinstance(st.test.op, ast.Or) else [st.test]
            for t in vals:
                ts = src(t).replace(' ', '')
                if ts in ('not%s.strip()' % line, 'len(%s.strip())==0' % line, '%s.strip()==\'\'' % line, '%s.isspace()' % line):
                    found = st
                if stripped_before and ts in ('len(%s)==0' % line, 'not%s' % line, "%s==''" % line):
                    found = st
                for c in ast.walk(t):
                    if isinstance(c, ast.Call) and isinstance(c.func, ast.Attribute) and c.func.attr in ('search', 'match', 'fullmatch') and c.args \
                            and src(c.args[-1]) == line:
                        pat = None
                        recv = c.func.value
                        if isinstance(recv, ast.Name):
                            d = fa.resolve(recv)
                            if d is not None and isinstance(d, ast.Call) and d.args and isinstance(d.args[0], ast.Constant):
                                pat = d.args[0].value
                        elif len(c.args) == 2 and isinstance(c.args[0], ast.Constant):
                            pat = c.args[0].value
                        if pat is not None:
                            items = rx.normal(pat)
                            core = [i for i in items if i[0] != 'AT']
                            if len(core) == 1 and core[0][0] == 'MAX_REPEAT' and core[0][1] == 0 and rx.item_admits(core[0][3][0], ' ') \
                                    and rx.item_admits(core[0][3][0], '\t') and rx.item_admits(core[0][3][0], '\r') and len(items) >= 2 and items[-1][0] == 'AT':
                                found = st
    ctx.check('C02.BLANK-SKIP', found is not None, f, found or loop, 'white-space-only lines are skipped before the line is tokenised',
              msg='_parse no longer skips lines that hold only blanks, tabs or a CR before tokenising: such a line (every empty line of a CRLF document read '
                  'from a file object) makes get_token index an empty string and the whole read fails', construct='blank-line filter')


def _first_norm(item):
    """The repeated item of a raw (re._parser) MAX_REPEAT, in the normalised spelling rx.item_admits reads."""
    return rx._norm(list(item[1][2]))[0]


def check_brace_trim(ctx, yc):
    """C02.BRACE-TRIM: blanks between `{` and the content of a brace-wrapped value are not part of the value."""
    f = yc.method('get_token')
    lits = [(c, fn, p) for c, fn, p, _ in rx.regex_literals(f.node) if p.startswith('^\\{') or p.startswith('^{') or p.startswith('\\{')]
    ctx.need(lits, 'get_token: brace pattern not found')
    def post_both(c):
        st = c
        while st is not None and not isinstance(st, ast.stmt):
            st = getattr(st, '_parent', None)
        blk = getattr(st, '_parent', None)
        for fld in ('body', 'orelse'):
            lst = getattr(blk, fld, None)
            if isinstance(lst, list) and any(x is st for x in lst):
                return any(isinstance(x, ast.Assign) and src(x.targets[0]) == 'word' and src(x.value).replace(' ', '') in ('word.strip()', 'word.rstrip()') for x in lst)
        return False
    for c, fn, p in lits:
        items = rx.normal(p)
        # expect: AT, LITERAL '{', MAX_REPEAT(0..) whitespace, <capture>...
        idx = next((i for i, it in enumerate(items) if it == ('LITERAL', 123)), None)
        ok = idx is not None and idx + 1 < len(items) and items[idx + 1][0] == 'MAX_REPEAT' and items[idx + 1][1] == 0 \
            and rx.item_admits(items[idx + 1][3][0], ' ') and rx.item_admits(items[idx + 1][3][0], '\t') and not rx.item_admits(items[idx + 1][3][0], 'a')
        post = False
        if not ok:
            # equivalent: the captured word is stripped afterwards in the same branch
            st = c
            while st is not None and not isinstance(st, ast.stmt):
                st = getattr(st, '_parent', None)
            blk = getattr(st, '_parent', None)
            for fld in ('body', 'orelse'):
                lst = getattr(blk, fld, None)
                if isinstance(lst, list) and any(x is st for x in lst):
                    post = any(isinstance(x, ast.Assign) and src(x.targets[0]) == 'word' and src(x.value).replace(' ', '') in ('word.strip()', 'word.lstrip()') for x in lst)
        # the closing side: a greedy capture that admits blanks swallows the blanks before `}` (the `\\s*` after it never matches)
        import re._parser as _sp
        raw = list(_sp.parse(p))
        cidx = next((i for i, it in enumerate(raw) if str(it[0]) == 'LITERAL' and it[1] == 125), None)
        okc = True
        if cidx is not None and cidx >= 2 and str(raw[cidx - 1][0]) == 'MAX_REPEAT' and str(raw[cidx - 2][0]) == 'SUBPATTERN':
            inner = list(raw[cidx - 2][1][3])
            if len(inner) == 1 and str(inner[0][0]) == 'MAX_REPEAT' and rx.item_admits(_first_norm(inner[0]), ' '):
                okc = False
        ctx.check('C02.BRACE-TRIM', okc or post_both(c), f, c, 'blanks before the closing brace are not part of the value (%r)' % p,
                  msg='the brace pattern %r captures the content greedily, so the blanks before `}` stay in the value: `{hello }` reads as "hello " while '
                      '`{ hello}` reads as "hello"; arbitrary blanks are part of the admissible layout' % p, construct='brace pattern, closing side ' + p)
        ctx.check('C02.BRACE-TRIM', ok or post, f, c, 'blanks after the opening brace are not part of the value (%r)' % p,
                  msg='the brace pattern %r keeps the blanks that follow `{`: `{ alpha beta}` reads as " alpha beta"; arbitrary blanks and tabs are part of the '
                      'admissible layout' % p, construct='brace pattern ' + p)


def check_quote_pair(ctx, yc):
    """C02.QUOTE-PAIR: what get_token removes from a quoted word is exactly what protect added.  Without escapes both sides are the
    identity; a reader that un-escapes backslash sequences needs a writer that escapes the backslash itself."""
    g = yc.method('get_token')
    p_ = yc.method('protect')
    top = [st for st in g.node.body if isinstance(st, ast.If)]
    ctx.need(top, 'get_token: dispatch on the first character not found')
    qbranch = top[-1].body
    unescape = []
    for st in qbranch:
        for c in walk_local(st):
            if isinstance(c, ast.Call) and isinstance(c.func, ast.Attribute) and c.func.attr in ('replace', 'sub', 'decode', 'translate'):
                if '\\\\' in src(c) or 'unicode_escape' in src(c):
                    unescape.append(c)
    quoted_pat = [(c, p) for c, fn, p, _ in rx.regex_literals(top[-1]) if p.startswith('^"')]
    escapes_bs = any(isinstance(c, ast.Call) and isinstance(c.func, ast.Attribute) and c.func.attr == 'replace' and len(c.args) == 2
                     and try_fold(c.args[0]) == '\\' and try_fold(c.args[1]) == '\\\\' for c in walk_local(p_.node))
    tolerant = any('\\\\' in p for c, p in quoted_pat)
    ok = (not unescape and not tolerant) or escapes_bs
    ctx.check('C02.QUOTE-PAIR', ok, g, (unescape or [qc for qc, _ in quoted_pat] or [g.node])[0],
              'quoted words are read back verbatim (no escape processing on either side)' if not unescape else 'reader un-escapes and writer escapes the backslash',
              msg='get_token treats a backslash inside a quoted word as an escape (`%s`) but protect() does not escape the backslash itself: every quoted '
                  'value containing a backslash (a Windows path, a LaTeX label) is read back changed, and one ending in a backslash cannot be read at all'
                  % (src(unescape[0])[:50] if unescape else (quoted_pat[0][1] if quoted_pat else '')), construct='escape processing without a matching writer')


MUTATORS = {'append', 'extend', 'update', 'setdefault', 'pop', 'clear', 'insert', 'remove', 'add', 'popitem'}


def _fresh_mutable(v):
    if isinstance(v, (ast.Dict, ast.List, ast.Set, ast.ListComp, ast.DictComp, ast.SetComp)):
        return True
    return isinstance(v, ast.Call) and call_name(v) in ('dict', 'list', 'set', 'OrderedDict', 'defaultdict', 'deque')


def check_per_instance(ctx, yc):
    """C02.PER-INSTANCE: a container that methods fill through `self` must be created per object."""
    init = yc.method('__init__')
    class_level = {}
    for st in yc.cls.body:
        if isinstance(st, ast.Assign):
            for t in st.targets:
                if isinstance(t, ast.Name):
                    class_level[t.id] = st
        elif isinstance(st, ast.AnnAssign) and isinstance(st.target, ast.Name) and st.value is not None:
            class_level[st.target.id] = st
    rebound = {}
    for st in init.node.body:                      # unconditional statements of the constructor only
        if isinstance(st, ast.Assign):
            for t in st.targets:
                if isinstance(t, ast.Attribute) and isinstance(t.value, ast.Name) and t.value.id == 'self':
                    rebound[t.attr] = st
    mutated = {}
    for name, f in yc.methods.items():
        for n in walk_local(f.node):
            base = None
            if isinstance(n, (ast.Assign, ast.AugAssign)):
                for t in (n.targets if isinstance(n, ast.Assign) else [n.target]):
                    b = t
                    depth = 0
                    while isinstance(b, ast.Subscript):
                        b = b.value
                        depth += 1
                    if depth and isinstance(b, ast.Attribute) and isinstance(b.value, ast.Name) and b.value.id == 'self':
                        base = b.attr
            elif isinstance(n, ast.Call) and isinstance(n.func, ast.Attribute) and n.func.attr in MUTATORS:
                b = n.func.value
                while isinstance(b, ast.Subscript):
                    b = b.value
                if isinstance(b, ast.Attribute) and isinstance(b.value, ast.Name) and b.value.id == 'self':
                    base = b.attr
            if base is not None:
                mutated.setdefault(base, (f, n))
    ctx.need(mutated, 'yanny: no attribute filled through self found')
    for attr in sorted(mutated):
        f, n = mutated[attr]
        shared = attr in class_level and _fresh_mutable(class_level[attr].value) and attr not in rebound
        ctx.check('C02.PER-INSTANCE', not shared, f, n,
                  'self.%s is filled in place by %s and %s' % (attr, f.qualname, 'created in __init__' if attr in rebound else
                                                                 'not a class-level container'),
                  msg='self.%s is filled in place (%s) but is created once at class level (`%s`) and never re-created in __init__: every '
                      'yanny object shares it, so a second file that re-uses a structure and column name is read with the first file\'s '
                      'types' % (attr, src(n)[:50], src(class_level[attr])[:40] if attr in class_level else ''),
                  construct='shared container yanny.%s' % attr)


def _strip_kind(e, fa):
    """'both' / 'left' / 'right' / None for X.strip() / lstrip / rstrip, following one single-definition name."""
    if isinstance(e, ast.Name) and fa is not None:
        d = fa.resolve(e)
        if d is not None:
            e = d
    if isinstance(e, ast.Call) and isinstance(e.func, ast.Attribute) and not e.args:
        return {'strip': 'both', 'lstrip': 'left', 'rstrip': 'right'}.get(e.func.attr)
    return None


def check_trim(ctx, yc):
    """C02.TRIM: whatever path trailing_comment() takes, a line reaches the row / pair dispatch without leading or trailing
    blanks, tabs or CR (the patterns downstream are anchored with ^ and capture (.*) to the end of line)."""
    f = yc.method('_parse')
    fa = FA(f)
    g = yc.method('trailing_comment')
    calls = [c for c in walk_local(f.node) if isinstance(c, ast.Call) and isinstance(c.func, ast.Attribute) and c.func.attr == 'trailing_comment']
    ctx.need(len(calls) == 1 and calls[0].args, '_parse: the call of trailing_comment was not found')
    arg = calls[0].args[0]
    kind = _strip_kind(arg, fa)
    rets = [r for r in walk_local(g.node) if isinstance(r, ast.Return) and r.value is not None]
    ctx.need(rets, 'trailing_comment: no return found')
    bad_rets = [r for r in rets if _strip_kind(r.value, None) not in ('both', 'right')]
    # the result may also be stripped by the caller afterwards
    after = None
    st = calls[0]
    while st is not None and not isinstance(st, ast.stmt):
        st = getattr(st, '_parent', None)
    if isinstance(st, ast.Assign) and isinstance(st.value, ast.Call) and isinstance(st.value.func, ast.Attribute) \
            and st.value.func.attr in ('strip', 'rstrip') and st.value.func.value is calls[0]:
        after = st.value.func.attr
    left_ok = kind in ('both', 'left') or after == 'strip'
    right_ok = kind in ('both', 'right') or after in ('strip', 'rstrip') or not bad_rets
    ctx.check('C02.TRIM', left_ok, f, calls[0], 'the line is left-trimmed before the comment is cut (%s)' % src(arg),
              msg='_parse hands `%s` to trailing_comment: leading blanks are not removed before the row / pair patterns' % src(arg),
              construct='trim left: ' + src(arg))
    ctx.check('C02.TRIM', right_ok, g if bad_rets and kind not in ('both', 'right') else f, bad_rets[0] if bad_rets else calls[0],
              'the line is right-trimmed on every path (argument %s; %d of %d returns of trailing_comment trim)' %
              (src(arg), len(rets) - len(bad_rets), len(rets)),
              msg='the line given to trailing_comment is not right-trimmed (`%s`) and trailing_comment returns `%s` untrimmed on the path '
                  'where the last # is inside quotes or absent: trailing blanks or a CR stay in the last value' %
                  (src(arg), src(bad_rets[0].value) if bad_rets else ''),
              construct='trim right: %s / %s' % (src(arg), src(bad_rets[0].value) if bad_rets else ''))


def _is_len_iter(e):
    """Iterable of lengths: [len(x) for ...], (len(x) for ...), map(len, X), or the same one level up through max()."""
    if isinstance(e, (ast.ListComp, ast.GeneratorExp)):
        elt = e.elt
        if isinstance(elt, ast.Call) and call_name(elt) == 'len':
            return True
        if isinstance(elt, ast.Call) and call_name(elt) == 'max':
            return _max_of_lengths(elt)
        return False
    if isinstance(e, ast.Call) and call_name(e) == 'map' and e.args and isinstance(e.args[0], ast.Name) and e.args[0].id == 'len':
        return True
    return False


def _max_of_lengths(c):
    return bool(c.args) and _is_len_iter(c.args[0])


def check_charlen(ctx, yc):
    """C02.CHARLEN: a char[] column without a declared width is as wide as its LONGEST value."""
    f = yc.method('char_length')
    n = 0
    for r in walk_local(f.node):
        if not (isinstance(r, ast.Return) and r.value is not None):
            continue
        v = r.value
        maxes = [c for c in ast.walk(v) if isinstance(c, ast.Call) and call_name(c) == 'max' and isinstance(c.func, ast.Name)]
        if not maxes:
            continue
        outer = maxes[0]
        if isinstance(v, ast.Call) and call_name(v) == 'len' and v.args and isinstance(v.args[0], ast.Call) and call_name(v.args[0]) == 'max':
            inner = v.args[0]
            keyed = any(k.arg == 'key' and isinstance(k.value, ast.Name) and k.value.id == 'len' for k in inner.keywords)
            good = keyed
        elif v is outer:
            good = _max_of_lengths(outer) or (_is_len_iter(outer.args[0]) if outer.args else False)
        else:
            continue
        n += 1
        # a declared table may have no rows: max() of an empty sequence raises unless it has a default
        top = v.args[0] if (isinstance(v, ast.Call) and call_name(v) == 'len' and v.args) else outer
        has_default = any(k.arg == 'default' for k in top.keywords) or (isinstance(top, ast.Call) and len(top.args) > 1)
        guarded = any(isinstance(a, ast.If) and ('len(' in src(a.test) or '.size' in src(a.test)) for a in ancestors(r)) or \
            any(isinstance(a, ast.Try) and any('ValueError' in src(h.type) for h in a.handlers if h.type is not None) and
                any(r in list(ast.walk(b)) for b in a.body) for a in ancestors(r))
        ctx.check('C02.CHARLEN', has_default or guarded, f, r, 'the width of a column of a table without rows is defined (`%s`)' % src(top)[:60],
                  msg='char_length takes `%s` over the rows of the table with no default: a table that is declared but has no rows makes the whole '
                      'read fail with ValueError (max() of an empty sequence)' % src(top)[:60], construct='char width of an empty column: ' + src(top)[:50])
        ctx.check('C02.CHARLEN', good, f, r, 'the width is the maximum of the value lengths: %s' % src(v)[:70],
                  msg='char_length returns `%s`: that is the length of the lexicographically largest value (or not a maximum of lengths), '
                      'not of the longest one; longer cells are truncated by the column dtype' % src(v)[:80],
                  construct='char width: ' + src(v)[:80])
    ctx.need(n >= 1, 'char_length: no max-of-lengths return found')


def check_token_ws(ctx, yc):
    """C02.TOKEN-WS: a bare word ends at the first blank OR tab, and a word followed only by white space is still split off."""
    f = yc.method('get_token')
    # the bare-word split: a splitting call of the function that is not the pattern of the quoted / brace-wrapped forms (those start
    # with the opening character), wherever the function's layout puts it (else branch, fall-through after early returns)
    splits = []
    for c in walk_local(f.node):
        if isinstance(c, ast.Call) and isinstance(c.func, ast.Attribute) and c.func.attr in ('split', 'partition', 'rpartition', 'match', 'search'):
            if c.func.attr in ('match', 'search'):
                pat = c.args[0] if c.args else None
                if pat is not None and not isinstance(pat, ast.Constant):
                    pat = FA(f).resolve(pat) if isinstance(pat, ast.Name) else None
                if isinstance(pat, ast.Constant) and isinstance(pat.value, str) and pat.value.lstrip('^').startswith(('"', '\\{', '{', '[{]', '["]')):
                    continue
            splits.append(c)
    ctx.need(splits, 'get_token: the bare-word split not found')
    c = splits[0]
    ok, why = False, 'unrecognised'
    if dotted(c.func.value) == 're' and c.func.attr == 'split' and c.args and isinstance(c.args[0], ast.Constant):
        items = rx.normal(c.args[0].value)
        inner = None
        if len(items) == 1 and items[0][0] == 'MAX_REPEAT' and items[0][1] >= 1:
            inner = items[0][3][0]
        elif len(items) == 1 and items[0][0] in ('IN', 'CATEGORY'):
            inner = items[0]
        ws = inner is not None and rx.item_admits(inner, ' ') and rx.item_admits(inner, '\t')
        ms = (len(c.args) > 2 and try_fold(c.args[2]) == 1) or any(k.arg == 'maxsplit' and try_fold(k.value) == 1 for k in c.keywords)
        ok = ws and ms
        why = 're.split over %r, maxsplit %s' % (c.args[0].value, 1 if ms else '?')
    elif c.func.attr in ('partition', 'rpartition'):
        why = 'splits at the literal %s only: a TAB does not end the word' % (src(c.args[0]) if c.args else '?')
    elif c.func.attr == 'split':
        sep = c.args[0] if c.args else None
        if sep is None or (isinstance(sep, ast.Constant) and sep.value is None):
            why = 'str.split without separator drops trailing white space first, so a word followed only by blanks is not split and falls back to the unsplit text'
        else:
            why = 'splits at the literal %s only' % src(sep)
    else:
        ctx.need(False, 'get_token: bare-word split idiom not recognised: %s' % src(c)[:60])
    ctx.check('C02.TOKEN-WS', ok, f, c, 'a bare word is split off at the first run of blanks/tabs (%s)' % why,
              msg='get_token splits a bare word with `%s`: %s' % (src(c)[:60], why), construct='bare-word split: ' + src(c)[:60])



def check_char_exact(ctx, yc):
    """Whether a column holds character data is decided on its base type being exactly `char`: type words are arbitrary identifiers,
    so a substring test (`typ.find('char')`, `'char' in typ`) takes an enum called `chartype` or `echarge` for a string column."""
    n = 0
    for m in ('isarray', 'char_length', 'dtype', 'convert', 'array_length', 'basetype', 'isenum'):
        if m not in yc.methods:
            continue
        f = yc.method(m)
        for c in walk_local(f.node):
            sub = None
            if isinstance(c, ast.Call) and isinstance(c.func, ast.Attribute) and c.func.attr in ('find', 'count', 'index', 'rfind') and c.args \
                    and isinstance(c.args[0], ast.Constant) and c.args[0].value == 'char':
                sub = c
            elif isinstance(c, ast.Compare) and len(c.ops) == 1 and isinstance(c.ops[0], (ast.In, ast.NotIn)) and isinstance(c.left, ast.Constant) \
                    and c.left.value == 'char':
                sub = c
            elif isinstance(c, ast.Compare) and len(c.ops) == 1 and isinstance(c.ops[0], (ast.Eq, ast.NotEq)) \
                    and any(isinstance(x, ast.Constant) and x.value == 'char' for x in (c.left, c.comparators[0])):
                n += 1
                ctx.check('C02.CHAR-EXACT', True, f, c, '%s: character columns are recognised by `%s`' % (m, src(c)))
                continue
            if sub is None:
                continue
            n += 1
            ctx.check('C02.CHAR-EXACT', False, f, sub, '',
                      msg='yanny.%s recognises character columns by the substring test `%s` on the type text: a column whose enum type is called '
                          '`chartype` (any identifier containing "char") is taken for a string column; as an array it is read as one scalar token'
                          % (m, src(sub)), construct='substring test ' + src(sub))
    ctx.need(n >= 1, 'yanny: no test for character columns found')


def check_cache_keys(ctx, yc):
    """C02.CACHE-KEY: a per-object memo that is looked up by (table, column) keeps the two apart - nested dictionaries or a tuple key.
    A key made by gluing the two names together (`structure + variable`) is shared by SPEC.OBJID and SPECOBJ.ID: whichever is asked
    first decides the type and array-ness of the other, so what a file means depends on the order of its rows."""
    n = 0
    for m, f in sorted(yc.methods.items()):
        fa = None
        for sub_ in walk_local(f.node):
            if not isinstance(sub_, ast.Subscript):
                continue
            if fa is None:
                fa = FA(f)
            base = sub_.value
            b = fa.deep(base) if isinstance(base, ast.Name) else base
            if not (isinstance(b, ast.Attribute) and isinstance(b.value, ast.Name) and b.value.id == 'self' and 'cache' in b.attr):
                continue
            k = sub_.slice
            kd = fa.deep(k) if isinstance(k, ast.Name) else k
            n += 1
            glued = None
            if isinstance(kd, ast.BinOp) and isinstance(kd.op, ast.Add):
                ops = [kd.left, kd.right]
                if all(isinstance(o, ast.Name) and o.id in f.params for o in ops):
                    glued = kd
            if isinstance(kd, ast.JoinedStr) and sum(1 for v in kd.values if isinstance(v, ast.FormattedValue)) >= 2 and not any(
                    isinstance(v, ast.Constant) and v.value for v in kd.values):
                glued = kd
            ctx.check('C02.CACHE-KEY', glued is None, f, sub_, 'yanny.%s: memo `%s` is keyed by `%s`' % (m, src(base), src(kd)[:40]),
                      msg='yanny.%s keys the memo `%s` by the names glued together (`%s`): two different (table, column) pairs with the same '
                          'concatenation share one entry, so the type of a column depends on which table was asked first' % (m, src(b), src(kd)),
                      construct='glued memo key in %s: %s' % (m, src(kd)))
    return n


def run(ctx):
    repo = ctx.repo
    yc = YannyClass(repo)
    check_char_exact(ctx, yc)
    ctx.cover(yc.method('type'), yc.method('_parse'), yc.method('isarray'), yc.method('__init__'), yc.method('convert'))
    check_name_exact(ctx, yc)
    check_pat_pair(ctx, yc)
    check_angle(ctx, yc)
    check_raw(ctx, yc)
    check_dispatch(ctx, yc)
    check_binary(ctx, yc)
    check_cont(ctx, yc)
    check_comment_first(ctx, yc)
    check_per_instance(ctx, yc)
    check_trim(ctx, yc)
    check_charlen(ctx, yc)
    check_token_ws(ctx, yc)
    check_blank_skip(ctx, yc)
    check_brace_trim(ctx, yc)
    check_quote_pair(ctx, yc)
    nk = check_cache_keys(ctx, yc)
    ctx.need(nk >= 2, 'yanny: the per-object memo lookups were not found')
    ctx.cover(yc.method('protect'))
    ctx.cover(yc.method('trailing_comment'), yc.method('char_length'), yc.method('get_token'))
    # INTCONV shared with C01 (same rule function, reported under C02's rule id)
    sub = type(ctx)(ctx.prop, ctx.repo, ctx.tier)
    check_intconv(sub, yc)
    for o in sub.obligations:
        o['rule'] = 'C02.INTCONV'
        ctx.obligations.append(o)
        ctx.rule_counts['C02.INTCONV'] = ctx.rule_counts.get('C02.INTCONV', 0) + 1
    for v in sub.violations:
        v.rule = 'C02.INTCONV'
        ctx.violations.append(v)
    ctx.functions.update(sub.functions)

"""C05 -- spheregroup partitions points into friends-of-friends components."""

from .spherelib import (check_cell_agree, check_rot_agree, check_dedup_wrap, check_list_desc, check_spheregroup, check_fof_merge,
                        check_full_scan, check_chunk_grid)

META = {
    'property': 'C05',
    'title': 'spheregroup partitions points into friends-of-friends components',
    'technique': 'AST isomorphism of cell formulas, loop-direction check of every intrusive-list rebuild, reset-before-rebuild '
                 'ordering, root-following check in the union-find merge, full-scan check of the per-chunk grouping',
    'explanation': (
        'Decided (pydl/pydlutils/spheregroup.py): C05.MARGIN - the cell margin equals the linking length handed to friends-of-friends '
        'and the chunk size is clamped to >= 4 x it before the cells are built; C05.LIST-DESC - every rebuild next[i] = first[g[i]]; '
        'first[g[i]] = i runs over i in descending order (4 sites), the only order in which first[g] ends as the lowest member and each '
        'chain ends at -1; C05.RESET - firstgroup[:] = -1 and multgroup[:] = 0 precede their rebuild loops; C05.RENUMBER - groups are '
        'renumbered in an ascending scan labelling a whole chain on first encounter; C05.ROOT - in the cross-chunk merge an earlier '
        'label is followed to its root before the minimum is taken, the second pass compresses paths to the minimum, the final pass '
        'maps labels to root numbers; C05.FULL-SCAN - the per-chunk grouping compares every target with all targets and links when '
        'sep <= distance; C05.CELLS - cell formulas / RA rotation / wrap handling shared with C04. C05.CELLS also carries the chunk-grid rules shared with C04 (exact end points of decBounds, nRa final before layout, two-sided cosDecMin, every non-empty chunk grouped). C05.GCIRC - the linking distance is the haversine great-circle formula sin^2(d/2) = sin^2(ddec/2) + cos(dec1) cos(dec2) sin^2(dra/2) (polynomial normal form, shared with C04 / C18); NOT decided: that the per-chunk '
        'grouping plus the union-find produce exactly the connected components for all geometries.'),
    'floors': {'C05.GCIRC': 2, 'C05.MARGIN': 2, 'C05.LIST-DESC': 4, 'C05.RESET': 2, 'C05.RENUMBER': 1, 'C05.ROOT': 3, 'C05.FULL-SCAN': 3, 'C05.CELLS': 9},
}


def run(ctx):
    # the linking distance is gcirc's: the great-circle formula is shared with C04 / C18 and reported here under C05.GCIRC
    from .c18 import check_gcirc
    sub = type(ctx)(ctx.prop, ctx.repo, ctx.tier)
    check_gcirc(sub, ctx.repo)
    for o in sub.obligations:
        if o['rule'] == 'C18.HAVERSINE':
            o['rule'] = 'C05.GCIRC'
            ctx.obligations.append(o)
            ctx.rule_counts['C05.GCIRC'] = ctx.rule_counts.get('C05.GCIRC', 0) + 1
    for v in sub.violations:
        if v.rule == 'C18.HAVERSINE':
            v.rule = 'C05.GCIRC'
            v.prop = 'C05'
            ctx.violations.append(v)
    ctx.functions.update(sub.functions)
    check_spheregroup(ctx, ctx.repo)
    n = check_list_desc(ctx, ctx.repo, 'C05.LIST-DESC')
    ctx.need(n >= 4, 'fewer intrusive-list rebuild sites than confirmed by hand (%d)' % n)
    check_fof_merge(ctx, ctx.repo)
    check_full_scan(ctx, ctx.repo)
    check_cell_agree(ctx, ctx.repo, 'C05.CELLS')
    check_rot_agree(ctx, ctx.repo, 'C05.CELLS')
    check_dedup_wrap(ctx, ctx.repo, 'C05.CELLS')
    check_chunk_grid(ctx, ctx.repo, 'C05.CELLS')

"""Parse /repo/pydl (tests, docs and conftest excluded), index functions, classes and
imports, resolve callees through the import tables.  Accepts an in-memory overlay
{relative path: source} so that the self-test can analyse edited variants of the
current tree without writing a scratch copy."""

import ast
import hashlib
import os

from . import AnalysisError

PKG = 'pydl'
EXCLUDE_DIRS = {'tests', 'docs', 'data', '__pycache__'}
EXCLUDE_FILES = {'conftest.py'}


def _canonical_idioms(tree):
    """Spelling-only normalisations applied to every module before rules see it (positions kept):
    redundant `pass` statements are dropped; np.argsort(x, ...) becomes x.argsort(...)."""
    for n in ast.walk(tree):
        for fld in ('body', 'orelse', 'finalbody'):
            v = getattr(n, fld, None)
            if isinstance(v, list) and len(v) > 1 and all(isinstance(x, ast.stmt) for x in v):
                kept = [x for x in v if not isinstance(x, ast.Pass)]
                if kept and len(kept) != len(v):
                    setattr(n, fld, kept)
        if isinstance(n, ast.Call) and isinstance(n.func, ast.Attribute) and n.func.attr == 'argsort' \
                and isinstance(n.func.value, ast.Name) and n.func.value.id in ('np', 'numpy') and len(n.args) >= 1:
            recv = n.args[0]
            n.func = ast.copy_location(ast.Attribute(value=recv, attr='argsort', ctx=ast.Load()), n.func)
            n.args = n.args[1:]


class Func:
    __slots__ = ('module', 'qualname', 'name', 'node', 'cls', 'roles', '_normalized')

    def __init__(self, module, qualname, node, cls):
        self.module = module
        self.qualname = qualname
        self.name = node.name
        self.node = node
        self.cls = cls
        self.roles = {}

    @property
    def rel(self):
        return self.module.rel

    @property
    def params(self):
        a = self.node.args
        return [x.arg for x in a.posonlyargs + a.args + a.kwonlyargs]

    def span(self):
        return (self.node.lineno, self.node.end_lineno)

    def digest(self):
        return hashlib.sha256(ast.dump(self.node, include_attributes=False).encode()).hexdigest()[:16]

    def site(self, node=None):
        ln = getattr(node, 'lineno', None) if node is not None else self.node.lineno
        return '%s:%s %s' % (self.rel, ln if ln is not None else '?', self.qualname)

    def __repr__(self):
        return '<Func %s:%s>' % (self.rel, self.qualname)


class Module:
    def __init__(self, rel, source):
        self.rel = rel
        self.source = source
        self.modname = rel[:-3].replace('/', '.')
        if self.modname.endswith('.__init__'):
            self.modname = self.modname[:-9]
            self.is_pkg = True
        else:
            self.is_pkg = False
        try:
            self.tree = ast.parse(source, filename=rel)
        except SyntaxError as e:
            raise AnalysisError('%s does not parse: %s' % (rel, e))
        _canonical_idioms(self.tree)
        self.funcs = {}
        self.classes = {}
        self.imports = {}      # local name -> (module name, attribute or None)
        self.assigns = {}      # module-level NAME -> value node (single assignment only)
        self._index()

    def _index(self):
        for n in ast.walk(self.tree):
            for c in ast.iter_child_nodes(n):
                c._parent = n
        self.tree._parent = None

        def visit(body, prefix, cls):
            for st in body:
                if isinstance(st, (ast.FunctionDef, ast.AsyncFunctionDef)):
                    q = prefix + st.name
                    f = Func(self, q, st, cls)
                    self.funcs[q] = f
                    # nested defs are indexed with a dotted prefix but stay opaque
                    visit(st.body, q + '.<locals>.', None)
                elif isinstance(st, ast.ClassDef):
                    self.classes[prefix + st.name] = st
                    visit(st.body, prefix + st.name + '.', st)
                elif isinstance(st, (ast.If, ast.Try)):
                    for sub in ('body', 'orelse', 'finalbody'):
                        visit(getattr(st, sub, []) or [], prefix, cls)
                    for h in getattr(st, 'handlers', []):
                        visit(h.body, prefix, cls)
        visit(self.tree.body, '', None)
        # innermost enclosing function of every node
        for q in sorted(self.funcs, key=lambda k: k.count('.')):
            f = self.funcs[q]
            for n in ast.walk(f.node):
                n._func = f
        for n in ast.walk(self.tree):
            if isinstance(n, ast.ImportFrom):
                base = self._resolve_from(n)
                for a in n.names:
                    self.imports.setdefault(a.asname or a.name, (base, a.name))
            elif isinstance(n, ast.Import):
                for a in n.names:
                    self.imports.setdefault(a.asname or a.name.split('.')[0],
                                            (a.name if a.asname else a.name.split('.')[0], None))
        counts = {}
        for st in self.tree.body:
            if isinstance(st, ast.Assign) and len(st.targets) == 1 and isinstance(st.targets[0], ast.Name):
                counts[st.targets[0].id] = counts.get(st.targets[0].id, 0) + 1
                self.assigns[st.targets[0].id] = st.value
        for k, c in counts.items():
            if c > 1:
                self.assigns.pop(k, None)

    def _resolve_from(self, n):
        if n.level == 0:
            return n.module or ''
        parts = self.modname.split('.')
        if not self.is_pkg:
            parts = parts[:-1]
        if n.level > 1:
            parts = parts[:len(parts) - (n.level - 1)]
        if n.module:
            parts = parts + n.module.split('.')
        return '.'.join(parts)


# parsed modules of unchanged files are shared between Repo instances of one process (they are never mutated: role recovery
# replaces Func.node only for functions that differ from the reference, and then the module is evicted from the cache)
_MODULE_CACHE = {}


class Repo:
    def __init__(self, root='/repo', overlay=None):
        self.root = root
        self.overlay = dict(overlay or {})
        self.modules = {}
        self.by_name = {}
        self._load()

    def _load(self):
        top = os.path.join(self.root, PKG)
        if not os.path.isdir(top):
            raise AnalysisError('package directory %s not found' % top)
        rels = []
        for d, dirs, files in os.walk(top):
            dirs[:] = sorted(x for x in dirs if x not in EXCLUDE_DIRS)
            for fn in sorted(files):
                if fn.endswith('.py') and fn not in EXCLUDE_FILES:
                    rels.append(os.path.relpath(os.path.join(d, fn), self.root))
        for rel in self.overlay:
            if rel not in rels:
                rels.append(rel)
        for rel in rels:
            if rel in self.overlay:
                m = Module(rel, self.overlay[rel])
            else:
                path = os.path.join(self.root, rel)
                st = os.stat(path)
                key = (path, st.st_mtime_ns, st.st_size)
                m = _MODULE_CACHE.get(key)
                if m is None:
                    with open(path, encoding='utf-8') as fh:
                        m = Module(rel, fh.read())
                    m._cache_key = key
                    _MODULE_CACHE[key] = m
            self.modules[rel] = m
            self.by_name[m.modname] = m
        from .roles import apply_tables
        apply_tables(self)
        # table-driven loops are unrolled once, in place, so that a rule and its FA bundle always look at the same tree
        from .normalize import normalize_in_place
        for m in self.modules.values():
            for f in m.funcs.values():
                if not getattr(f, '_normalized', False):
                    normalize_in_place(f)

    # ---- lookups ------------------------------------------------------------------
    def module(self, rel):
        try:
            return self.modules[rel]
        except KeyError:
            raise AnalysisError('anchor module %s not found' % rel)

    def func(self, rel, qualname):
        m = self.module(rel)
        try:
            return m.funcs[qualname]
        except KeyError:
            raise AnalysisError('anchor function %s:%s not found' % (rel, qualname))

    def cls(self, rel, name):
        m = self.module(rel)
        try:
            return m.classes[name]
        except KeyError:
            raise AnalysisError('anchor class %s:%s not found' % (rel, name))

    def all_funcs(self):
        for rel in sorted(self.modules):
            m = self.modules[rel]
            for q in m.funcs:
                yield m.funcs[q]

    def resolve_symbol(self, module, name, _depth=0):
        """Resolve a bare name used in `module` to a Func / ClassDef of the package, following
        re-exports through package __init__ files.  Returns None for externals."""
        if _depth > 6:
            return None
        if name in module.funcs:
            return module.funcs[name]
        if name in module.classes:
            return (module, module.classes[name])
        if name in module.imports:
            mod, attr = module.imports[name]
            if attr is None:
                return None
            target = self.by_name.get(mod)
            if target is not None:
                r = self.resolve_symbol(target, attr, _depth + 1)
                if r is not None:
                    return r
            sub = self.by_name.get(mod + '.' + attr)
            if sub is not None:
                return sub
        return None

    def resolve_call(self, call, func=None):
        """Callee of an ast.Call: a Func of the package, or None when external/unknown.
        Handles bare names, self.method(), Class.method and module.attr forms."""
        f = call.func
        module = func.module if func is not None else getattr(call, '_func').module
        if isinstance(f, ast.Name):
            r = self.resolve_symbol(module, f.id)
            if isinstance(r, Func):
                return r
            if isinstance(r, tuple):      # class: constructor
                m, c = r
                return m.funcs.get(c.name + '.__init__')
            return None
        if isinstance(f, ast.Attribute):
            if isinstance(f.value, ast.Name):
                if f.value.id == 'self' and func is not None and func.cls is not None:
                    q = func.cls.name + '.' + f.attr
                    if q in module.funcs:
                        return module.funcs[q]
                    return None
                r = self.resolve_symbol(module, f.value.id)
                if isinstance(r, Module):
                    return r.funcs.get(f.attr)
                if isinstance(r, tuple):
                    m, c = r
                    return m.funcs.get(c.name + '.' + f.attr)
        return None

    def external_name(self, node, module):
        """Dotted name of an expression after import resolution, e.g. np.zeros -> numpy.zeros,
        os.environ -> os.environ.  None if the base is not an imported name."""
        parts = []
        n = node
        while isinstance(n, ast.Attribute):
            parts.append(n.attr)
            n = n.value
        if not isinstance(n, ast.Name):
            return None
        base = n.id
        if base in module.imports:
            mod, attr = module.imports[base]
            head = mod if attr is None else (mod + '.' + attr)
        else:
            head = base
        return '.'.join([head] + parts[::-1])

    def digest(self):
        h = hashlib.sha256()
        for rel in sorted(self.modules):
            h.update(rel.encode())
            h.update(self.modules[rel].source.encode())
        return h.hexdigest()[:16]

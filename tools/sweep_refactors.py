#!/venv/bin/python
"""Evaluate behaviour-preserving changes (independent refactorings) against the quick check of their property, in memory.
Every verdict other than 'silent' is a false alarm of the machinery.

usage: sweep_refactors.py <root> [--cross] [Cxx ...]         root = /tmp/refacN (candidates) or /verif/refactors (recorded)
"""
import concurrent.futures as cf
import contextlib
import glob
import io
import os
import re
import sys

HERE = os.path.dirname(os.path.dirname(os.path.abspath(__file__)))
sys.path.insert(0, HERE)
from pydlsa import AnalysisError, udiff, report          # noqa: E402
from pydlsa.loader import Repo                            # noqa: E402

ROOT = os.environ.get('PYDLSA_REPO', '/repo')


def one(job):
    prop, name, patch = job
    from pydlsa.cli import evaluate

    def read(rel):
        with open(os.path.join(ROOT, rel), encoding='utf-8') as fh:
            return fh.read()
    try:
        overlay = udiff.apply(open(patch).read(), read)
    except udiff.PatchError as e:
        return name, 'n/a', 'patch does not apply: %s' % e
    try:
        for rel, s in overlay.items():
            compile(s, rel, 'exec')
        repo = Repo(ROOT, overlay)
        with contextlib.redirect_stdout(io.StringIO()):
            ctx, mod = evaluate(prop, repo)
        new, known = report.split_known(ctx.violations)
        if new:
            return name, 'VIOLATION', new[0].human()[:300]
        return name, 'silent', ''
    except AnalysisError as e:
        return name, 'no verdict', str(e)[:240]
    except Exception as e:
        return name, 'no verdict', 'internal error %s: %s' % (type(e).__name__, str(e)[:160])


def main():
    root = sys.argv[1]
    cross = '--cross' in sys.argv
    only = set(a for a in sys.argv[2:] if a != '--cross')
    jobs = []
    for d in sorted(glob.glob(os.path.join(root, '*'))):
        base = os.path.basename(d)
        m = re.match(r'(C\d\d)', base)
        if not m or (only and m.group(1) not in only):
            continue
        if os.path.exists(os.path.join(d, 'patch.diff')):
            jobs.append((m.group(1), base, os.path.join(d, 'patch.diff')))
        for k in sorted(glob.glob(os.path.join(d, '*', 'patch.diff'))):
            jobs.append((m.group(1), '%s/%s' % (base, os.path.basename(os.path.dirname(k))), k))
    if cross:
        # every change under every property (a yanny refactor must be silent for C01, C02 and C03 alike)
        props = ['C%02d' % i for i in range(1, 21) if i != 14]
        jobs = [(p, '%s@%s' % (name, p), patch) for (own, name, patch) in jobs for p in props if p != own]
    with cf.ProcessPoolExecutor(16) as ex:
        out = list(ex.map(one, jobs))
    tally = {}
    for name, verdict, detail in out:
        tally[verdict] = tally.get(verdict, 0) + 1
        if verdict != 'silent':
            print('%-12s %-10s %s' % (name, verdict, detail))
    print(tally)


if __name__ == '__main__':
    main()

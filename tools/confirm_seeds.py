#!/venv/bin/python
"""Confirm candidate seeded changes and record them under /verif/seeded/<id>/.

usage: confirm_seeds.py <candidate root> <round tag>      e.g. /tmp/seed r1

For every <root>/<Cxx>/<k>/{patch.diff,demo.py,notes.md}:  in a scratch git worktree of /repo HEAD
(never /repo itself): demo must pass, patch must apply, the pinned test-suite must still pass
(133 passed), demo must fail, then the registered quick check of that property is run against the
patched worktree (PYDLSA_REPO) and its verdict recorded.  Worktrees are removed at the end.
"""
import concurrent.futures as cf
import json
import os
import re
import shutil
import subprocess
import sys

REPO = '/repo'
VERIF = '/verif'
PY = '/venv/bin/python'


def sh(cmd, cwd=None, env=None, timeout=1200):
    p = subprocess.run(cmd, shell=True, cwd=cwd, env=env, capture_output=True, text=True, timeout=timeout)
    return p.returncode, (p.stdout + p.stderr)


def work(job):
    prop, k, src, tag, slot = job
    wt = '/tmp/wt/_confirm%d' % slot
    if not os.path.isdir(wt):
        rc, out = sh('git -C %s worktree add -q --detach %s HEAD' % (REPO, wt))
        if rc:
            return prop, k, {'error': 'worktree: ' + out}
        shutil.copy(os.path.join(REPO, 'pydl/version.py'), os.path.join(wt, 'pydl/version.py'))
    head = sh('git -C %s rev-parse --short HEAD' % REPO)[1].strip()
    sh('git checkout -q --detach %s && git checkout -q -- . && git clean -qfd -e pydl/version.py' % head, cwd=wt)
    res = {'property': prop, 'candidate': '%s/%s' % (prop, k), 'repo_head': head}
    patch = os.path.join(src, 'patch.diff')
    demo = os.path.join(src, 'demo.py')
    env = dict(os.environ, PYTHONDONTWRITEBYTECODE='1')
    rc, out = sh('%s %s' % (PY, demo), cwd=wt, env=env)
    res['demo_clean_exit'] = rc
    rc, out = sh('git apply %s' % patch, cwd=wt)
    res['patch_applies'] = rc == 0
    if rc:
        res['error'] = out[-300:]
        return prop, k, res
    rc, out = sh('%s -m pytest -q -p no:cacheprovider --timeout=900 2>&1 | tail -3' % PY, cwd=wt, env=env)
    m = re.search(r'(\d+) passed', out)
    res['suite_passed'] = int(m.group(1)) if m else 0
    res['suite_failed'] = bool(re.search(r'\b\d+ (failed|error)', out))
    rc, out = sh('%s %s' % (PY, demo), cwd=wt, env=env)
    res['demo_patched_exit'] = rc
    res['demo_patched_tail'] = out.strip().splitlines()[-1][:200] if out.strip() else ''
    evd = '/tmp/wt/_ev_confirm%d' % slot
    rc, out = sh('PYDLSA_REPO=%s PYDLSA_EVIDENCE_DIR=%s %s/check --property %s' % (wt, evd, VERIF, prop))
    res['check_exit'] = rc
    res['check_rules'] = sorted(set(re.findall(r'\b(C\d\d\.[A-Z0-9-]+)\b', '\n'.join(l for l in out.splitlines() if 'quick:' not in l))))
    res['check_first'] = next((l[:260] for l in out.splitlines() if l.startswith('pydl/')), out.strip().splitlines()[0][:260] if out.strip() else '')
    sh('git checkout -q -- . && git clean -qfd -e pydl/version.py', cwd=wt)
    res['confirmed'] = (res['demo_clean_exit'] == 0 and res['patch_applies'] and res['suite_passed'] >= 133 and not res['suite_failed']
                        and res['demo_patched_exit'] != 0)
    return prop, k, res


def main():
    root, tag = sys.argv[1], sys.argv[2]
    jobs = []
    slot = 0
    for prop in sorted(os.listdir(root)):
        d = os.path.join(root, prop)
        if not re.match(r'C\d\d$', prop) or not os.path.isdir(d):
            continue
        for k in sorted(os.listdir(d)):
            src = os.path.join(d, k)
            if os.path.isfile(os.path.join(src, 'patch.diff')) and os.path.isfile(os.path.join(src, 'demo.py')):
                jobs.append([prop, k, src, tag])
    nslots = 8
    results = []
    # static slot assignment so that two jobs never share a worktree
    buckets = [[] for _ in range(nslots)]
    for i, j in enumerate(jobs):
        buckets[i % nslots].append(j + [i % nslots])

    def run_bucket(b):
        return [work(tuple(j)) for j in b]
    with cf.ThreadPoolExecutor(nslots) as ex:
        for lst in ex.map(run_bucket, buckets):
            results.extend(lst)
    for prop, k, res in sorted(results):
        sid = '%s-%s-%s' % (prop, tag, k)
        line = '%s confirmed=%s suite=%s demo=%s/%s check_exit=%s rules=%s' % (
            sid, res.get('confirmed'), res.get('suite_passed'), res.get('demo_clean_exit'), res.get('demo_patched_exit'),
            res.get('check_exit'), ','.join(res.get('check_rules', [])))
        print(line)
        if res.get('confirmed'):
            dst = os.path.join(VERIF, 'seeded', sid)
            os.makedirs(dst, exist_ok=True)
            src = os.path.join(root, prop, k)
            for fn in ('patch.diff', 'demo.py', 'notes.md'):
                if os.path.exists(os.path.join(src, fn)):
                    shutil.copy(os.path.join(src, fn), os.path.join(dst, fn))
            notes = open(os.path.join(src, 'notes.md')).read() if os.path.exists(os.path.join(src, 'notes.md')) else ''
            meta = {
                'id': sid, 'breaks_property': prop, 'source': 'independent sub-agent given only the property text and a scratch worktree (round %s)' % tag,
                'needs_to_manifest': ' '.join(notes.strip().split())[:900] if notes else '',
                'what_i_ran': ['demo.py on clean worktree of %s: exit %s' % (res['repo_head'], res['demo_clean_exit']),
                               'git apply patch.diff', 'pinned pytest command: %s passed' % res['suite_passed'],
                               'demo.py with patch: exit %s (%s)' % (res['demo_patched_exit'], res['demo_patched_tail']),
                               './check --property %s against the patched worktree: exit %s, rules %s' % (prop, res['check_exit'], res['check_rules'])],
                'detected_by_quick_check': res['check_exit'] == 1, 'check_exit': res['check_exit'], 'rules_fired': res['check_rules'],
                'first_report': res['check_first'],
            }
            first = {0: 'missed', 1: 'reported', 2: 'no verdict'}.get(res['check_exit'], '?')
            try:
                first = json.load(open(os.path.join(dst, 'meta.json'))).get('verdict_when_first_seen', first)
            except (OSError, ValueError):
                pass
            meta['verdict_when_first_seen'] = first       # the independent measurement: never overwritten by later re-runs
            with open(os.path.join(dst, 'meta.json'), 'w') as fh:
                json.dump(meta, fh, indent=1)
    for s in range(nslots):
        wt = '/tmp/wt/_confirm%d' % s
        if os.path.isdir(wt):
            sh('git -C %s worktree remove --force %s' % (REPO, wt))
        shutil.rmtree('/tmp/wt/_ev_confirm%d' % s, ignore_errors=True)


if __name__ == '__main__':
    main()

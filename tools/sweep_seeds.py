#!/venv/bin/python
"""Re-evaluate recorded seeded changes in memory (patch applied through the loader overlay, exactly as the self-test does) and
print / record the verdict of the quick check of the property each one breaks.

usage: sweep_seeds.py [--update] [pattern ...]      e.g. sweep_seeds.py --update r3
--update rewrites check_exit / rules_fired / detected_by_quick_check / first_report in meta.json (verdict_when_first_seen is kept).
"""
import concurrent.futures as cf
import contextlib
import glob
import io
import json
import os
import sys

HERE = os.path.dirname(os.path.dirname(os.path.abspath(__file__)))
sys.path.insert(0, HERE)
from pydlsa import AnalysisError, udiff, report          # noqa: E402
from pydlsa.loader import Repo                            # noqa: E402

ROOT = os.environ.get('PYDLSA_REPO', '/repo')


def one(d):
    from pydlsa.cli import evaluate
    meta = json.load(open(os.path.join(d, 'meta.json')))
    prop = meta['breaks_property']
    if meta.get('obsolete'):
        return meta['id'], 'n/a', [], 'obsolete: ' + meta['obsolete'][:80]

    def read(rel):
        with open(os.path.join(ROOT, rel), encoding='utf-8') as fh:
            return fh.read()
    try:
        overlay = udiff.apply(open(os.path.join(d, 'patch.diff')).read(), read)
    except udiff.PatchError as e:
        return meta['id'], 'n/a', [], 'patch does not apply: %s' % e
    try:
        repo = Repo(ROOT, overlay)
        with contextlib.redirect_stdout(io.StringIO()):
            ctx, mod = evaluate(prop, repo)
        new, known = report.split_known(ctx.violations)
        if new:
            return meta['id'], 1, sorted({v.rule for v in new}), new[0].human()[:260]
        return meta['id'], 0, [], ''
    except AnalysisError as e:
        return meta['id'], 2, [], 'ANALYSIS-ERROR %s' % str(e)[:200]
    except Exception as e:
        return meta['id'], 2, [], 'ANALYSIS-ERROR internal error %s: %s' % (type(e).__name__, str(e)[:160])


def main():
    args = [a for a in sys.argv[1:] if not a.startswith('--')]
    update = '--update' in sys.argv
    dirs = sorted(d for d in glob.glob(os.path.join(HERE, 'seeded', '*')) if os.path.exists(os.path.join(d, 'meta.json'))
                  and (not args or any(a in os.path.basename(d) for a in args)))
    with cf.ProcessPoolExecutor(16) as ex:
        out = list(ex.map(one, dirs))
    tally = {}
    for d, (sid, rc, rules, first) in zip(dirs, out):
        tally[rc] = tally.get(rc, 0) + 1
        print('%-10s %-4s %s %s' % (sid, rc, ','.join(rules), '' if rc == 1 else first[:150]))
        if update and rc != 'n/a':
            p = os.path.join(d, 'meta.json')
            m = json.load(open(p))
            m['check_exit'] = rc
            m['rules_fired'] = rules
            m['detected_by_quick_check'] = rc == 1
            m['first_report'] = first
            json.dump(m, open(p, 'w'), indent=1)
    print(tally)


if __name__ == '__main__':
    main()

#!/venv/bin/python
"""Prepare a round of independent BEHAVIOUR-PRESERVING changes: for every claimed property a scratch worktree /tmp/wt/<Cxx> of /repo
HEAD and a task file <out>/<Cxx>/TASK.md.  The sub-agent sees only the property text; it returns refactorings a maintainer could
commit that do NOT change behaviour.  The checks must stay silent on every one of them (exit 0): each report is a false alarm to
be removed from the machinery.

usage: gen_refactor_tasks.py <out root> [Cxx ...]
"""
import json
import os
import shutil
import subprocess
import sys

VERIF = os.path.dirname(os.path.dirname(os.path.abspath(__file__)))
REPO = '/repo'

TEMPLATE = '''# Task: behaviour-preserving refactorings of the code behind one property of the `pydl` package

You work ONLY inside the scratch git worktree `{wt}` (a checkout of the Python package weaverba137/pydl,
Python ports of IDL astronomy routines). Never read or write `/repo` or `/verif`. Write your results under `{out}`.

## The property (a behavioural guarantee users rely on)

```json
{prop}
```

## Already recorded -- do NOT repeat these (find five genuinely different ones: other functions on the property's code path, other kinds of edit)

{known}

## What to produce

Produce **five different, independent changes** to the package source (not to its tests) that a maintainer could plausibly
commit as a clean-up and that **do not change behaviour at all** for any input: the functions named in the property's anchors (and
the helpers they call) must compute exactly the same results, raise the same exceptions and have the same side effects as before.
Make the five as different in kind as you can, and make each one a real, non-trivial edit of the code that implements the
property (not a comment or a blank line). Examples of the kinds meant - use others too:

* renaming locals, introducing or inlining temporaries, naming a magic number, hoisting a constant to module level;
* reordering independent statements, merging or splitting conditionals, inverting an if/else, early return instead of else,
  `elif` chains vs nested ifs, De Morgan, `not x == y` vs `x != y`;
* equivalent NumPy spellings (`x.sum(1)` / `np.sum(x, axis=1)`, `np.where(c)[0]` / `np.nonzero(c)[0]`, `a[:, None]` / `a[:, np.newaxis]`,
  `x ** 2` / `x * x`, `np.zeros(n) + v` / `np.full(n, v)` where exactly equivalent, dtype given as string or as NumPy type);
* extracting a block into a private helper function (same module) or inlining a small helper; turning a loop into a comprehension or
  back where the result is identical; replacing a table-driven loop by straight-line code or the reverse;
* positional vs keyword arguments, added type hints, added logging through the module's existing `log`/`warn` facilities only where it
  cannot change behaviour, reformatting long expressions, docstring edits;
* one of the five should combine several such edits in one function (a typical "tidy up" commit), and one should touch two
  functions at once (e.g. a shared helper extracted from both).

For each change k = 1..5 create the directory `{out}/k/` containing:

* `patch.diff` - `git diff` of the worktree against HEAD for this change alone (each patch must apply on its own to a clean
  checkout of HEAD with `git apply`). After saving a patch, reset the worktree (`git -C {wt} checkout -- .`).
* `equiv.py` - a program, run as `cd <checkout> && /venv/bin/python equiv.py`, that imports the `pydl` of the current directory
  (start it with `import sys, os; sys.path.insert(0, os.getcwd())`) and exercises the changed functions on a good spread of
  inputs (including edge cases relevant to the property), printing a digest (e.g. sha256 of the repr / bytes of all results and of
  the exception types raised). It must print **the same digest** on the unmodified checkout and with the patch applied, and it
  must exit 0 in both cases. No network; temporary files only under `tempfile.mkdtemp()`.
* `notes.md` - first line `# {pid} / refactor k -- <one-line title>`, then 3-10 lines: what was changed and why it cannot change
  behaviour.

Before you finish, for each k verify from a clean worktree: (a) run equiv.py, keep the digest; (b) apply the patch;
(c) the full test-suite `cd {wt} && /venv/bin/python -m pytest -q -p no:cacheprovider --timeout=900` still reports `133 passed`;
(d) equiv.py prints the same digest; (e) `git checkout -- .`. Record the two digests at the end of notes.md. If a candidate changes
any result, discard it - it must be a true no-op for users.

Do not use `git stash` (shared between worktrees). The sandbox has no network. numpy / scipy / astropy are in `/venv`. `pydl/version.py`
is git-ignored and already present; leave it alone and keep it out of patches. Do not commit anything. Your final answer: one line per
k saying what the change is and whether (a)-(e) were confirmed.
'''


def sh(cmd):
    return subprocess.run(cmd, shell=True, capture_output=True, text=True)


def main():
    out = sys.argv[1]
    only = set(sys.argv[2:])
    props = [json.loads(l) for l in open(os.path.join(VERIF, 'properties.jsonl')) if l.strip()]
    man = json.load(open(os.path.join(VERIF, 'MANIFEST.json')))
    na = {x['property_id'] if isinstance(x, dict) else x for x in man.get('not_applicable', [])}
    for p in props:
        pid = p['id']
        if pid in na or (only and pid not in only):
            continue
        wt = '/tmp/wt/' + pid
        if os.path.isdir(wt):
            sh('git -C %s worktree remove --force %s' % (REPO, wt))
        r = sh('git -C %s worktree add -q --detach %s HEAD' % (REPO, wt))
        if r.returncode:
            print(pid, 'worktree failed:', r.stderr)
            continue
        shutil.copy(os.path.join(REPO, 'pydl/version.py'), os.path.join(wt, 'pydl/version.py'))
        import glob
        import re
        known = []
        for d in sorted(glob.glob(os.path.join(VERIF, 'refactors', pid + '-*'))):
            n = os.path.join(d, 'notes.md')
            if os.path.exists(n):
                t = re.sub(r'^#+\s*', '', open(n).readline().strip())
                t = re.sub(r'^C\d\d\s*/\s*(refactor\s*)?\d+\s*[-:—]*\s*', '', t)
                known.append('* ' + t)
        od = os.path.join(out, pid)
        os.makedirs(od, exist_ok=True)
        with open(os.path.join(od, 'TASK.md'), 'w') as fh:
            fh.write(TEMPLATE.format(wt=wt, out=od, pid=pid, prop=json.dumps(p, indent=1), known='\n'.join(known) or '* (none)'))
        print(pid, 'task written')
    sh('git -C %s worktree prune' % REPO)


if __name__ == '__main__':
    main()

#!/bin/bash
# Re-base recorded seeded patches that no longer apply to /repo HEAD (after a fix: commit touched the same lines).
# usage: rebase_seeds.sh <seed id> ...      three-way merge in a scratch worktree; the demo must still pass clean / fail patched
# and the suite must still pass; then seeded/<id>/patch.diff is replaced.  Conflicts are left for manual resolution.
set -u
WT=/tmp/wt/_rebase
git -C /repo worktree remove --force $WT 2>/dev/null
git -C /repo worktree add -q --detach $WT HEAD || exit 2
cp /repo/pydl/version.py $WT/pydl/version.py
for id in "$@"; do
  d=/verif/seeded/$id
  (cd $WT && git checkout -q -- . && git clean -qfd -e pydl/version.py)
  if (cd $WT && git apply --3way $d/patch.diff 2>/tmp/rebase.err); then
    if (cd $WT && git diff --name-only --diff-filter=U | grep -q .); then echo "$id: CONFLICT"; (cd $WT && git diff | grep -n '^[ +-]*<<<<<<<\|>>>>>>>' | head -3); continue; fi
    (cd $WT && git reset -q && git diff > /tmp/rebased.diff)
    (cd $WT && git checkout -q -- . && PYTHONDONTWRITEBYTECODE=1 /venv/bin/python $d/demo.py >/dev/null 2>&1); c=$?
    (cd $WT && git apply /tmp/rebased.diff && PYTHONDONTWRITEBYTECODE=1 /venv/bin/python $d/demo.py >/dev/null 2>&1); p=$?
    s=$(cd $WT && /venv/bin/python -m pytest -q -p no:cacheprovider --color=no --timeout=900 2>&1 | tail -1)
    echo "$id: rebased; demo clean=$c patched=$p; suite: $s"
    if [ $c -eq 0 ] && [ $p -ne 0 ] && echo "$s" | grep -q "133 passed" && ! echo "$s" | grep -q "failed\|error"; then cp /tmp/rebased.diff $d/patch.diff; echo "   patch.diff replaced"; fi
  else
    echo "$id: does not merge: $(head -2 /tmp/rebase.err | tr '\n' ' ')"
  fi
done
git -C /repo worktree remove --force $WT

import sys, json
sys.path.insert(0,'/verif')
from pydlsa.loader import Repo
from pydlsa import selftest
repo = Repo('/repo')
props = sys.argv[1:] or ['C%02d'%i for i in range(1,21) if i!=14]
tot=[0,0,0,0]
for p in props:
    r = selftest.run_for(p, repo)
    tot[0]+=r['mutants']; tot[1]+=r['killed']; tot[2]+=r['refactors']; tot[3]+=r['silent']
    print(p, 'break %d/%d keep %d/%d skipped %d' % (r['killed'], r['mutants'], r['silent'], r['refactors'], len(r['skipped'])))
    for f in r['failed']: print('   FAILED', f[:300])
    for f in r['skipped']: print('   SKIP', f[:200])
print(tot)

#!/bin/bash
# verify one seed on HEAD: demo clean 0, patched !=0, suite 133
id=$1; WT=/tmp/wt/_one; git -C /repo worktree remove --force $WT 2>/dev/null; git -C /repo worktree add -q --detach $WT HEAD; cp /repo/pydl/version.py $WT/pydl/
cd $WT; PYTHONDONTWRITEBYTECODE=1 /venv/bin/python /verif/seeded/$id/demo.py >/dev/null 2>&1; c=$?
git apply /verif/seeded/$id/patch.diff || echo "APPLY FAILED"
PYTHONDONTWRITEBYTECODE=1 /venv/bin/python /verif/seeded/$id/demo.py >/dev/null 2>&1; p=$?
s=$(/venv/bin/python -m pytest -q -p no:cacheprovider --color=no --timeout=900 2>&1 | tail -1)
echo "$id clean=$c patched=$p suite=$s"; cd /tmp; git -C /repo worktree remove --force $WT

#!/bin/bash
# run every registered quick check against /repo (or PYDLSA_REPO) and print one line per property with its exit code
cd "$(dirname "$0")/.."
bad=0
for i in 01 02 03 04 05 06 07 08 09 10 11 12 13 15 16 17 18 19 20; do
  out=$(./check --property C$i 2>&1); rc=$?
  echo "C$i rc=$rc $(echo "$out" | tail -1 | grep -o '[0-9]* obligations.*functions\|[0-9]* violation(s), [0-9]* known; [0-9.]*s' | tr '\n' ' ')"
  if [ $rc -ne 0 ]; then bad=1; echo "$out" | grep -v "^C$i quick" | cut -c1-260 | head -5; fi
done
exit $bad

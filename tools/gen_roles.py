#!/venv/bin/python
"""Generate pydlsa/role_ref.json: per function that any rule covers, the name-free signature of each local as spelled on the
current /repo tree (the tree the rules were written against).  Re-run after a fix: commit changes an anchored function."""
import json, os, sys
HERE = os.path.dirname(os.path.dirname(os.path.abspath(__file__)))
sys.path.insert(0, HERE)
import pydlsa.roles as roles
roles._REF = {}          # do not apply an older reference while generating
from pydlsa.loader import Repo
from pydlsa.cli import evaluate
from pydlsa.roles import signatures, commutative_texts
import ast

repo = Repo('/repo')
covered = set()
for i in range(1, 21):
    p = 'C%02d' % i
    try:
        ctx, mod = evaluate(p, repo)
    except Exception as e:
        continue
    covered |= set(ctx.functions)
# plus every function of the anchored modules (rules may look at helpers)
out = {}
for rel, m in sorted(repo.modules.items()):
    out['%s#module_assigns' % rel] = sorted(m.assigns)
    for q, f in sorted(m.funcs.items()):
        if '<locals>' in q:
            continue
        # original definition from the module tree (before any role canonicalisation)
        orig = None
        for n in ast.walk(m.tree):
            if isinstance(n, ast.FunctionDef) and n.name == f.name and n.lineno == f.node.lineno:
                orig = n
        if orig is None:
            continue
        sig = signatures(orig)
        if sig:
            out['%s:%s' % (rel, q)] = sig
        import hashlib
        out['%s:%s#digest' % (rel, q)] = hashlib.sha256(ast.dump(f.node, include_attributes=False).encode()).hexdigest()[:16]
        lines = m.source.split('\n')
        first = min([orig.lineno] + [d.lineno for d in orig.decorator_list])
        out['%s:%s#src' % (rel, q)] = [first, '\n'.join(lines[first - 1:orig.end_lineno])]
        ct = commutative_texts(orig)
        if ct:
            out['%s:%s#commutative' % (rel, q)] = ct
json.dump(out, open(os.path.join(HERE, 'pydlsa', 'role_ref.json'), 'w'), indent=0)
print('role_ref.json: %d entries' % len(out))

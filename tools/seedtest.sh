#!/bin/bash
# usage: tools/seedtest.sh <patch.diff> <property> [more properties...]
# Applies the patch in a scratch worktree of /repo (never /repo itself), runs the checks against it.
set -u
REV=""; if [ "$1" = "-R" ]; then REV="-R"; shift; fi
PATCH=$(realpath "$1"); shift
WT=/tmp/wt/_test
if [ ! -d $WT ]; then git -C /repo worktree add -q --detach $WT HEAD || exit 3; fi
git -C $WT checkout -q --detach $(git -C /repo rev-parse HEAD) 2>/dev/null
git -C $WT checkout -q -- . ; git -C $WT clean -qfd
git -C $WT apply $REV "$PATCH" || { echo "PATCH DOES NOT APPLY: $PATCH"; exit 3; }
rc=0
for P in "$@"; do
  PYDLSA_REPO=$WT PYDLSA_EVIDENCE_DIR=/tmp/wt/_ev /verif/check --property $P | grep -v '^KNOWN' | cut -c1-260
  r=${PIPESTATUS[0]}; echo "   -> $P exit $r"; [ $r -gt $rc ] && rc=$r
done
git -C $WT checkout -q -- . ; git -C $WT clean -qfd
exit $rc

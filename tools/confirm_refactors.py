#!/venv/bin/python
"""Confirm candidate behaviour-preserving changes and record them under /verif/refactors/<id>/.

usage: confirm_refactors.py <candidate root> <round tag>      e.g. /tmp/refac1 f1

For every <root>/<Cxx>/<k>/{patch.diff,equiv.py}: in a scratch worktree of /repo HEAD, equiv.py must exit 0 and print a digest,
the patch must apply, the pinned suite must still pass (133 passed), equiv.py must print the SAME digest.  Then the quick check of
the property is run against the patched tree and its verdict recorded (verdict_when_first_seen is never overwritten)."""
import concurrent.futures as cf
import json
import os
import re
import shutil
import subprocess
import sys

REPO = '/repo'
VERIF = '/verif'
PY = '/venv/bin/python'


def sh(cmd, cwd=None, timeout=1800):
    p = subprocess.run(cmd, shell=True, cwd=cwd, capture_output=True, text=True, timeout=timeout,
                       env=dict(os.environ, PYTHONDONTWRITEBYTECODE='1'))
    return p.returncode, (p.stdout + p.stderr)


def work(job):
    prop, k, src, tag, slot = job
    wt = '/tmp/wt/_rconfirm%d' % slot
    if not os.path.isdir(wt):
        rc, out = sh('git -C %s worktree add -q --detach %s HEAD' % (REPO, wt))
        if rc:
            return prop, k, {'error': out}
        shutil.copy(os.path.join(REPO, 'pydl/version.py'), os.path.join(wt, 'pydl/version.py'))
    sh('git reset -q --hard && git clean -qfd -e pydl/version.py', cwd=wt)
    res = {}
    rc, out = sh('%s %s/equiv.py' % (PY, src), cwd=wt)
    res['equiv_clean_exit'] = rc
    res['digest_clean'] = (out.strip().splitlines() or [''])[-1][-80:]
    rc, out = sh('git apply %s/patch.diff' % src, cwd=wt)
    res['patch_applies'] = rc == 0
    if rc:
        return prop, k, res
    rc, out = sh('%s -m pytest -q -p no:cacheprovider --color=no --timeout=900 2>&1 | tail -3' % PY, cwd=wt)
    m = re.search(r'(?<!\d)(\d+) passed', out)
    res['suite_passed'] = int(m.group(1)) if m else 0
    res['suite_failed'] = bool(re.search(r'\b\d+ (failed|error)', out))
    rc, out = sh('%s %s/equiv.py' % (PY, src), cwd=wt)
    res['equiv_patched_exit'] = rc
    res['digest_patched'] = (out.strip().splitlines() or [''])[-1][-80:]
    evd = '/tmp/wt/_ev_rconfirm%d' % slot
    rc, out = sh('PYDLSA_REPO=%s PYDLSA_EVIDENCE_DIR=%s %s/check --property %s' % (wt, evd, VERIF, prop))
    res['check_exit'] = rc
    res['check_first'] = next((l[:260] for l in out.splitlines() if l.startswith('pydl/') or l.startswith('ANALYSIS')), '')
    sh('git reset -q --hard', cwd=wt)
    res['confirmed'] = (res['equiv_clean_exit'] == 0 and res['equiv_patched_exit'] == 0 and res['suite_passed'] >= 133 and not res['suite_failed']
                        and res['digest_clean'] == res['digest_patched'] and len(res['digest_clean']) >= 16)
    return prop, k, res


def main():
    root, tag = sys.argv[1], sys.argv[2]
    jobs = []
    for prop in sorted(os.listdir(root)):
        d = os.path.join(root, prop)
        if not re.match(r'C\d\d$', prop) or not os.path.isdir(d):
            continue
        for k in sorted(os.listdir(d)):
            src = os.path.join(d, k)
            if os.path.isfile(os.path.join(src, 'patch.diff')) and os.path.isfile(os.path.join(src, 'equiv.py')):
                jobs.append([prop, k, src, tag])
    nslots = 8
    buckets = [[] for _ in range(nslots)]
    for i, j in enumerate(jobs):
        buckets[i % nslots].append(j + [i % nslots])
    results = []
    with cf.ThreadPoolExecutor(nslots) as ex:
        for lst in ex.map(lambda b: [work(tuple(j)) for j in b], buckets):
            results.extend(lst)
    for prop, k, res in sorted(results):
        rid = '%s-%s-%s' % (prop, tag, k)
        verdict = {0: 'silent', 1: 'VIOLATION', 2: 'no verdict'}.get(res.get('check_exit'), '?')
        print('%s confirmed=%s suite=%s digests_equal=%s check=%s' % (rid, res.get('confirmed'), res.get('suite_passed'),
                                                                    res.get('digest_clean') == res.get('digest_patched'), verdict))
        if res.get('confirmed'):
            dst = os.path.join(VERIF, 'refactors', rid)
            os.makedirs(dst, exist_ok=True)
            src = os.path.join(root, prop, k)
            for fn in ('patch.diff', 'equiv.py', 'notes.md'):
                if os.path.exists(os.path.join(src, fn)):
                    shutil.copy(os.path.join(src, fn), os.path.join(dst, fn))
            notes = open(os.path.join(src, 'notes.md')).read() if os.path.exists(os.path.join(src, 'notes.md')) else ''
            first = verdict
            try:
                first = json.load(open(os.path.join(dst, 'meta.json'))).get('verdict_when_first_seen', first)
            except (OSError, ValueError):
                pass
            meta = {'id': rid, 'property': prop, 'kind': 'behaviour-preserving change by an independent sub-agent (round %s)' % tag,
                    'title': (notes.strip().splitlines() or [''])[0][:200],
                    'what_i_ran': ['equiv.py on clean worktree of HEAD: exit %s' % res['equiv_clean_exit'], 'git apply patch.diff',
                                   'pinned pytest command: %s passed' % res['suite_passed'],
                                   'equiv.py with patch: exit %s, digest %s' % (res['equiv_patched_exit'], 'identical' if res['digest_clean'] == res['digest_patched'] else 'DIFFERENT')],
                    'check_exit': res['check_exit'], 'verdict': verdict, 'first_report': res['check_first'], 'verdict_when_first_seen': first}
            json.dump(meta, open(os.path.join(dst, 'meta.json'), 'w'), indent=1)
    for s in range(nslots):
        wt = '/tmp/wt/_rconfirm%d' % s
        if os.path.isdir(wt):
            sh('git -C %s worktree remove --force %s' % (REPO, wt))
        shutil.rmtree('/tmp/wt/_ev_rconfirm%d' % s, ignore_errors=True)


if __name__ == '__main__':
    main()

#!/venv/bin/python
"""Robustness probe (development aid, not a registered check): rename every local variable of every function a
property's rules cover, one at a time, and run the property's rules on the in-memory variant.  A behaviour-preserving
rename must never give a VIOLATION; ANALYSIS-ERROR (no verdict) is tolerated but counted."""
import ast
import concurrent.futures as cf
import io
import contextlib
import re
import sys
import os
sys.path.insert(0, os.path.dirname(os.path.dirname(os.path.abspath(__file__))))
from pydlsa.loader import Repo
from pydlsa import AnalysisError, report
from pydlsa.cli import evaluate

ROOT = '/repo'


def locals_of(fn):
    names = set()
    params = {a.arg for a in fn.args.posonlyargs + fn.args.args + fn.args.kwonlyargs}
    if fn.args.vararg:
        params.add(fn.args.vararg.arg)
    if fn.args.kwarg:
        params.add(fn.args.kwarg.arg)
    for n in ast.walk(fn):
        if isinstance(n, ast.Name) and isinstance(n.ctx, ast.Store):
            names.add(n.id)
    glob = {x for n in ast.walk(fn) if isinstance(n, (ast.Global, ast.Nonlocal)) for x in n.names}
    return sorted(names - params - glob)


def rename_in_function(source, fn, old, new):
    """Token-wise rename inside the line span of fn (identifiers only, not attributes or keyword names)."""
    lines = source.split('\n')
    tree_names = [(n.lineno, n.col_offset) for n in ast.walk(fn) if isinstance(n, ast.Name) and n.id == old]
    for ln, col in sorted(tree_names, reverse=True):
        l = lines[ln - 1]
        # col_offset is in utf8 bytes; sources are ascii here
        if l[col:col + len(old)] == old:
            lines[ln - 1] = l[:col] + new + l[col + len(old):]
    return '\n'.join(lines)


def job(args):
    prop, rel, qual, name = args
    repo0 = Repo(ROOT)
    m = repo0.modules[rel]
    # use the original (pre-role) function node from the module tree for positions
    fn = None
    for n in ast.walk(m.tree):
        if isinstance(n, (ast.FunctionDef,)) and n.name == qual.split('.')[-1] and n.lineno == args_lineno.get((rel, qual)):
            fn = n
    if fn is None:
        return (prop, rel, qual, name, 'skip', '')
    new = name + '_rn'
    src2 = rename_in_function(m.source, fn, name, new)
    try:
        compile(src2, rel, 'exec')
        repo = Repo(ROOT, {rel: src2})
        buf = io.StringIO()
        with contextlib.redirect_stdout(buf):
            ctx, mod = evaluate(prop, repo)
        newv, _ = report.split_known(ctx.violations)
        if newv:
            return (prop, rel, qual, name, 'VIOLATION', '%s: %s' % (newv[0].rule, newv[0].msg[:100]))
        return (prop, rel, qual, name, 'ok', '')
    except AnalysisError as e:
        return (prop, rel, qual, name, 'exit2', str(e)[:100])
    except Exception as e:
        return (prop, rel, qual, name, 'error', '%s %s' % (type(e).__name__, str(e)[:80]))


args_lineno = {}


def main():
    props = sys.argv[1:] or ['C%02d' % i for i in range(1, 21) if i != 14]
    repo = Repo(ROOT)
    jobs = []
    for p in props:
        ctx, mod = evaluate(p, repo)
        for (rel, qual) in sorted(ctx.functions):
            m = repo.modules[rel]
            # find original def in module tree
            fn = None
            for n in ast.walk(m.tree):
                if isinstance(n, ast.FunctionDef) and n.name == qual.split('.')[-1]:
                    f = m.funcs.get(qual)
                    if f is not None and n.lineno == f.node.lineno:
                        fn = n
            if fn is None:
                continue
            args_lineno[(rel, qual)] = fn.lineno
            for name in locals_of(fn):
                jobs.append((p, rel, qual, name))
    print('%d rename variants' % len(jobs))
    with cf.ProcessPoolExecutor(16) as ex:
        res = list(ex.map(job, jobs, chunksize=4))
    tally = {}
    for r in res:
        tally[r[4]] = tally.get(r[4], 0) + 1
        if r[4] in ('VIOLATION', 'error'):
            print('%s %s:%s rename %s -> %s %s' % (r[0], r[1].split('/')[-1], r[2], r[3], r[4], r[5]))
    ex2 = {}
    for r in res:
        if r[4] == 'exit2':
            ex2.setdefault((r[0], r[2]), []).append(r[3])
    for k, v in sorted(ex2.items()):
        print('exit2 %s %s: %s' % (k[0], k[1], ' '.join(v)))
    print(tally)


if __name__ == '__main__':
    main()

#!/venv/bin/python
"""Commit the working-tree change of /repo as one `fix:` commit and record it: patch under planned-fixes/, entry in
known_findings.json (status fixed, never suppressing anything), reversed patch registered as a positive example in
pydlsa/selftest.py, reference spellings regenerated.

usage: record_fix.py NN slug property rule function 'construct' 'commit subject (without fix:)' 'what failed' 'witness'
The pinned test-suite must have been run by the caller; this script re-runs it and refuses to commit on a failure.
"""
import json
import os
import re
import subprocess
import sys

VERIF = os.path.dirname(os.path.dirname(os.path.abspath(__file__)))


def sh(cmd, cwd=None):
    p = subprocess.run(cmd, shell=True, cwd=cwd, capture_output=True, text=True)
    return p.returncode, p.stdout + p.stderr


def main():
    nn, slug, prop, rule, function, construct, subject, what, witness = sys.argv[1:10]
    rc, out = sh('git status --short', '/repo')
    files = [l[3:] for l in out.splitlines() if l.strip()]
    if not files:
        sys.exit('nothing to commit in /repo')
    rc, out = sh('/venv/bin/python -m pytest -q -p no:cacheprovider --color=no --timeout=900', '/repo')
    tail = out.strip().splitlines()[-1] if out.strip() else ''
    if rc != 0 or not re.search(r'(?<!\d)133 passed', out) or re.search(r'\b\d+ (failed|error)', out):
        sys.exit('test-suite does not pass with the fix: %s' % tail)
    name = '%s-%s-%s.patch' % (nn, prop, slug)
    rc, diff = sh('git diff', '/repo')
    open(os.path.join(VERIF, 'planned-fixes', name), 'w').write(diff)
    rc, out = sh('git add -A && git commit -q -m %s' % json.dumps('fix: ' + subject), '/repo')
    if rc:
        sys.exit('commit failed: ' + out)
    commit = sh('git rev-parse --short HEAD', '/repo')[1].strip()
    kf = os.path.join(VERIF, 'known_findings.json')
    k = json.load(open(kf))
    k['findings'].append({'status': 'fixed', 'property': prop, 'rule': rule, 'commit': commit, 'commit_subject': 'fix: ' + subject,
                          'file': files[0], 'function': function, 'construct': construct, 'what': what, 'witness': witness,
                          'record': 'fixed: property=%s %s %s' % (prop, commit, what)})
    json.dump(k, open(kf, 'w'), indent=1)
    st = os.path.join(VERIF, 'pydlsa', 'selftest.py')
    s = open(st).read()
    marker = ']\n\n\ndef _read('
    assert marker in s
    s = s.replace(marker, "    (%r, %r, %r),\n" % (name, prop, rule) + marker, 1)
    open(st, 'w').write(s)
    print(sh('/venv/bin/python tools/gen_roles.py', VERIF)[1].strip())
    print('committed', commit, name, tail)


if __name__ == '__main__':
    main()

#!/venv/bin/python
"""Development probe: run the idiom fuzzer for some properties and print every variant that is not silent."""
import sys, os, collections, concurrent.futures as cf
HERE = os.path.dirname(os.path.dirname(os.path.abspath(__file__)))
sys.path.insert(0, HERE)
from pydlsa.loader import Repo
from pydlsa.cli import evaluate
from pydlsa import fuzz
import io, contextlib
props = sys.argv[1:] or ['C%02d' % i for i in range(1, 21) if i != 14]
repo = Repo('/repo')
tot = collections.Counter()
for p in props:
    with contextlib.redirect_stdout(io.StringIO()):
        ctx, mod = evaluate(p, repo)
    jobs = fuzz.idiom_jobs(p, repo, list(ctx.functions))
    with cf.ProcessPoolExecutor(16) as ex:
        out = list(ex.map(fuzz._job, jobs, chunksize=4))
    c = collections.Counter()
    for desc, status, detail in out:
        cls = desc.split('/')[0]
        c[(cls, status)] += 1
        tot[(cls, status)] += 1
        if status not in ('ok', 'skip'):
            print(p, status, desc, '->', detail)
    print('==', p, len(jobs), dict(collections.Counter(s for (_, s), n in c.items() for _ in range(n))))
    sys.stdout.flush()
print('TOTAL by class:')
for cls in sorted({k[0] for k in tot}):
    print('  %-9s' % cls, {s: n for (c2, s), n in tot.items() if c2 == cls})

#!/venv/bin/python
"""Regenerate /verif/MANIFEST.json from the META blocks of the rule modules that exist.
Properties without a rule module are listed under not_applicable with their reason."""
import importlib
import json
import os
import sys

HERE = os.path.dirname(os.path.dirname(os.path.abspath(__file__)))
sys.path.insert(0, HERE)

NOT_APPLICABLE = {
    'C14': 'static analysis: every clause is a numerical statement about IDL semantics (window-edge arithmetic, '
           'even/odd median rule, roll direction, interpolation formula) except argument rejection in rebin, which '
           'three pytest.raises cases of the existing suite already pin; no structural necessary condition is left '
           'that tests cannot settle (DESIGN 4 C14, 9).',
}
NOT_BUILT = 'rule module not built yet in this round (DESIGN 4 lists the planned structural clauses); not claimed until it is'

LEVEL_TEXT = ('Static analysis of the current source of /repo (nothing is executed): the structural clauses listed in '
              'DESIGN section 4 for this property are decided exactly - each is a necessary condition of the '
              'behavioural property (breaking it breaks observable behaviour for some in-domain input) - and every '
              'violating construct is reported by file, function and rule. The numerical / for-all-values clauses of '
              'the statement are NOT decided by this check and are named as declined in the evidence explanation. '
              'This is the right level because the property quantifies over runtime values that no sound static '
              'argument in reach can bound, while the mechanisms that hold it up (agreement of tables and formulas, '
              'ordering on every path, effect discipline, index/type discipline) are visible in the shape of the code.')


def borrowed_text(p):
    from pydlsa.cli import BORROWS
    b = BORROWS.get(p)
    if not b:
        return ''
    parts = []
    for owner, only in b:
        parts.append('%s (%s)' % (owner, 'all its rules' if only is None else ', '.join(sorted(r.split('.', 1)[1] for r in only))))
    return (' Also evaluated under this property, with their own rule ids: the rules of the helper functions on its code path, owned by '
            + '; '.join(parts) + '.')


def main():
    checks = []
    na = []
    for i in range(1, 21):
        p = 'C%02d' % i
        if p in NOT_APPLICABLE:
            na.append({'property_id': p, 'reason': NOT_APPLICABLE[p]})
            continue
        try:
            mod = importlib.import_module('pydlsa.rules.' + p.lower())
        except ModuleNotFoundError:
            na.append({'property_id': p, 'reason': NOT_BUILT})
            continue
        m = mod.META
        checks.append({
            'property_id': p,
            'quick_cmd': './check --property %s --tier quick' % p,
            'thorough_cmd': './check --property %s --tier thorough' % p,
            'evidence_file': 'evidence/%s.json' % p,
            'replay_cmd_template': './check --replay {path}',
            'engine': 'pydlsa',
            'level_claimed': {
                'category': 'other',
                'text': LEVEL_TEXT + ' Decided here: ' + m.get('claim', m['explanation'].split(' NOT decided')[0]) + borrowed_text(p),
                'design_ref': 'DESIGN.md section 4, %s' % p,
            },
            'level_note': 'Trusted base: CPython ast; frozen facts about the numpy/scipy/astropy entry points named by the '
                          'rules; the pydlsa engine (CFG with exceptional edges, dominators, reaching definitions), '
                          'self-validated in the thorough tier by a catalogue of breaking and harmless edits. '
                          'Assumes no exec/eval/monkey-patching in the analysed modules. Numerical behaviour not decided.',
            'technique': 'static analysis: ' + m['technique'],
        })
    man = {
        'version': 1,
        'setup_cmd': './check --setup',
        'hooks': {
            'guard': 'none',
            'enable': 'no hooks or instrumentation: the checks read /repo sources only (static analysis)',
            'baseline_off_cmd': 'cd /repo && /venv/bin/python -m pytest -ra -q -p no:cacheprovider --timeout=900 --continue-on-collection-errors',
            'source_commits': [],
            'add_only': True,
        },
        'engines': [{
            'name': 'pydlsa',
            'path': 'pydlsa/',
            'serves_properties': [c['property_id'] for c in checks],
            'kind_free_text': 'repository-specific static analyser on the Python ast (stdlib only): loader with import '
                              'resolution and call graph, statement CFG with exceptional edges, dominators, reaching '
                              'definitions, typestate dataflow, table/formula agreement, light type inference',
        }],
        'checks': checks,
        'not_applicable': na,
        'notes': 'Exit 0 = every structural obligation discharged; 1 = VIOLATION lines; 2 = ANALYSIS-ERROR (anchor '
                 'vanished / idiom not recognised / instance count below floor / self-test failed): no verdict. '
                 'Genuine defects found on the pinned tree were repaired by fix: commits in /repo and are recorded '
                 'as fixed in known_findings.json.',
    }
    with open(os.path.join(HERE, 'MANIFEST.json'), 'w') as fh:
        json.dump(man, fh, indent=1)
    print('MANIFEST.json: %d checks, %d not_applicable' % (len(checks), len(na)))


if __name__ == '__main__':
    main()

#!/venv/bin/python
"""Development aid: for one idiom variant (property, description prefix) show where the normal forms of variant and reference differ."""
import sys, os, ast, difflib
HERE = os.path.dirname(os.path.dirname(os.path.abspath(__file__)))
sys.path.insert(0, HERE)
from pydlsa.loader import Repo
from pydlsa.cli import evaluate
from pydlsa import fuzz, roles, normal
import io, contextlib
prop, want = sys.argv[1], sys.argv[2]
repo = Repo('/repo')
with contextlib.redirect_stdout(io.StringIO()):
    ctx, mod = evaluate(prop, repo)
for job in fuzz.idiom_jobs(prop, repo, list(ctx.functions)):
    p, root, rel, desc, src2 = job
    if not desc.startswith(want):
        continue
    print('##', desc)
    qual = desc.split('/')[1].split(':')[0]
    r2 = Repo(root, {rel: src2})
    f = r2.modules[rel].funcs[qual]
    print('roles:', f.roles)
    ref = roles.reference()
    rnode = roles.reference_node(ref['%s:%s#src' % (rel, qual)])
    # the unsubstituted current node
    cur = None
    for n in ast.walk(ast.parse(src2)):
        if isinstance(n, ast.FunctionDef) and n.name == f.name:
            cur = n if cur is None or True else cur
            if (qual.split('.')[0] if '.' in qual else None) is None:
                break
    m2 = r2.modules[rel]
    from pydlsa.loader import Module
    mm = Module(rel, src2)
    curf = mm.funcs[qual]
    info = roles.callee_info(r2, f)
    a = ast.unparse(normal.normal_form(curf.node, info)).split('\n')
    b = ast.unparse(normal.normal_form(rnode, info)).split('\n')
    for l in difflib.unified_diff(b, a, 'reference', 'variant', lineterm='', n=1):
        print(l)
    break

#!/venv/bin/python
"""Prepare one round of independent seeding: for every claimed property a scratch worktree /tmp/wt/<Cxx> of /repo HEAD and a
task file <out>/<Cxx>/TASK.md holding only the property text, the one-line titles of changes already recorded (so that the new
ones differ) and the acceptance protocol.  Nothing from /verif other than the property text reaches the sub-agent.

usage: gen_seed_tasks.py <out root> [Cxx ...]        e.g. gen_seed_tasks.py /tmp/seed3
"""
import glob
import json
import os
import re
import shutil
import subprocess
import sys

VERIF = os.path.dirname(os.path.dirname(os.path.abspath(__file__)))
REPO = '/repo'

TEMPLATE = '''# Task: seed realistic, hard-to-notice regressions for one property of the `pydl` package

You work ONLY inside the scratch git worktree `{wt}` (a checkout of the Python package weaverba137/pydl,
Python ports of IDL astronomy routines). Never read or write `/repo` or `/verif`. Write your results under `{out}`.

## The property (a behavioural guarantee users rely on)

```json
{prop}
```

## Already known -- do NOT repeat these ideas (find three genuinely different ones, in other functions or clauses if you can)

{known}

Do not use `git stash` (the stash is shared between worktrees): use `git diff > file`, `git apply`, `git apply -R`, `git checkout -- .`.
Prefer clauses of the property, and functions on its code path, that the ideas above do not touch. At least one of your three changes
should consist of **two cooperating edits** (in two functions, or two places of one function) that each look harmless alone, and at
least one should be in a helper that the anchored functions call rather than in the anchored function itself, if there is one.

## What to produce

Produce **three different, independent changes** to the package source (not to its tests), each of which

1. **breaks the property above** for some inputs / histories / fault points,
2. still imports/compiles, and **still passes the whole existing test-suite unedited**:
   `cd {wt} && /venv/bin/python -m pytest -q -p no:cacheprovider --timeout=900` must report `133 passed`
   (run from the worktree root so that the worktree's `pydl` is the one imported; `/venv/bin/python` is the interpreter to use),
3. looks like something a maintainer could plausibly commit (a refactor gone slightly wrong, an "optimisation",
   a "cleanup", an off-by-one, a dropped case, a wrong constant, two cooperating sites that each look fine alone, a
   swapped argument, a moved statement, an error path that forgets something) -- NOT a blatant sabotage, no dead
   giveaway comments,
4. **needs something specific to manifest**: a particular unusual input, a multi-step sequence of operations, a fault at a
   particular point, a particular combination of options -- ordinary use and the existing tests must not expose it at once.

Make the three changes as *different in kind and location* as you can (different functions / mechanisms / clauses of the
property). Prefer changes in the code the property's anchors name, but a change elsewhere that breaks the property is welcome too.

For each change k = 1, 2, 3 create the directory `{out}/k/` containing:

* `patch.diff` -- `git diff` of the worktree against HEAD for this change alone (each patch must apply on its own to a clean
  checkout of HEAD with `git apply`). After saving a patch, reset the worktree (`git -C {wt} checkout -- .`) before starting the next one.
* `demo.py` -- a small self-contained program, run as `cd <checkout> && /venv/bin/python demo.py` (it must import the `pydl`
  of the current directory: start it with `import sys, os; sys.path.insert(0, os.getcwd())`), that **exits 0 on the
  unmodified checkout and exits non-zero (assertion failure) with the patch applied**. It must check the property's
  behaviour (what a user observes), not the source text. It must not need network access; it may create temporary
  files under `tempfile.mkdtemp()` and should clean them up.
* `notes.md` -- first line `# {pid} / change k -- <one-line title>`, then 5-15 lines: what was changed, which clause of the property
  it breaks, what exactly is needed for it to manifest, and why the existing tests do not notice.

Before you finish, for each k verify yourself, from a clean worktree: (a) demo passes without the patch, (b) apply patch,
(c) full test-suite still `133 passed`, (d) demo fails, (e) `git checkout -- .` to clean up. Record the commands and their
outcomes at the end of `notes.md`. If a candidate change makes any existing test fail, discard it and find another.

If, while reading the code, you find that the UNMODIFIED checkout already breaks the property for some input, write that up as
`{out}/DEFECT-n.md` with a small reproducer (do not count it as one of your three changes).

Practical notes: the sandbox has no network. numpy / scipy / astropy are installed in `/venv`. The file `pydl/version.py`
is git-ignored and already present in the worktree; leave it alone and do not include it in patches. Do not commit anything.
Do not leave junk in `{out}` other than the files asked for. Your final answer should be a short
list: for each k, one line saying what the change is and whether (a)-(e) were confirmed.
'''


def sh(cmd):
    return subprocess.run(cmd, shell=True, capture_output=True, text=True)


def main():
    out = sys.argv[1]
    only = set(sys.argv[2:])
    props = [json.loads(l) for l in open(os.path.join(VERIF, 'properties.jsonl')) if l.strip()]
    man = json.load(open(os.path.join(VERIF, 'MANIFEST.json')))
    na = {x['property_id'] if isinstance(x, dict) else x for x in man.get('not_applicable', [])}
    fixed = json.load(open(os.path.join(VERIF, 'known_findings.json')))['findings']
    for p in props:
        pid = p['id']
        if pid in na or (only and pid not in only):
            continue
        known = []
        for d in sorted(glob.glob(os.path.join(VERIF, 'seeded', pid + '-*'))):
            n = os.path.join(d, 'notes.md')
            if os.path.exists(n):
                t = open(n).readline().strip()
                t = re.sub(r'^#+\s*', '', t)
                t = re.sub(r'^C\d\d\s*/\s*(change\s*)?\d+\s*[-:—]*\s*', '', t)
                known.append('* ' + t)
        for f in fixed:
            if f['rule'].startswith(pid + '.'):
                known.append('* (already repaired in this checkout) ' + f['what'])
        wt = '/tmp/wt/' + pid
        if os.path.isdir(wt):
            sh('git -C %s worktree remove --force %s' % (REPO, wt))
        r = sh('git -C %s worktree add -q --detach %s HEAD' % (REPO, wt))
        if r.returncode:
            print(pid, 'worktree failed:', r.stderr)
            continue
        shutil.copy(os.path.join(REPO, 'pydl/version.py'), os.path.join(wt, 'pydl/version.py'))
        od = os.path.join(out, pid)
        os.makedirs(od, exist_ok=True)
        with open(os.path.join(od, 'TASK.md'), 'w') as fh:
            fh.write(TEMPLATE.format(wt=wt, out=od, pid=pid, prop=json.dumps(p, indent=1), known='\n'.join(known) or '* (none)'))
        print(pid, 'task written,', len(known), 'known ideas')
    sh('git -C %s worktree prune' % REPO)


if __name__ == '__main__':
    main()

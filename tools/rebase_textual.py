#!/venv/bin/python
"""Re-base recorded patches (seeded regressions, refactorings) that stopped applying because a `fix:` commit changed a line they
quote.  The (old line -> new line) pairs are read from /verif/planned-fixes/NN-*.patch (NN >= first); every context / removed / added
line of a stale patch that equals an old line is rewritten to the new one.  The result is kept only when it applies to /repo HEAD
(checked in memory with pydlsa.udiff) -- behaviour is re-confirmed separately (verify_seed.sh / confirm scripts).

usage: rebase_textual.py <first fix number> <patch.diff> [...]        rewrites the files in place, prints what happened
"""
import glob
import os
import re
import sys

HERE = os.path.dirname(os.path.dirname(os.path.abspath(__file__)))
sys.path.insert(0, HERE)
from pydlsa import udiff          # noqa: E402


INSERTIONS = []


def pairs_from(first):
    out = []
    for f in sorted(glob.glob(os.path.join(HERE, 'planned-fixes', '*.patch'))):
        m = re.match(r'(\d+)-', os.path.basename(f))
        if not m or int(m.group(1)) < first:
            continue
        lines = open(f).read().split('\n')
        i = 0
        while i < len(lines):
            if lines[i].startswith('-') and not lines[i].startswith('---'):
                olds = []
                while i < len(lines) and lines[i].startswith('-') and not lines[i].startswith('---'):
                    olds.append(lines[i][1:])
                    i += 1
                news = []
                while i < len(lines) and lines[i].startswith('+') and not lines[i].startswith('+++'):
                    news.append(lines[i][1:])
                    i += 1
                if olds and news:
                    out.append((olds, news))
            else:
                i += 1
    return out


def insertions_from(first):
    """(line before, [inserted lines], line after) for the pure insertions of the fix patches."""
    out = []
    for f in sorted(glob.glob(os.path.join(HERE, 'planned-fixes', '*.patch'))):
        m = re.match(r'(\d+)-', os.path.basename(f))
        if not m or int(m.group(1)) < first:
            continue
        lines = open(f).read().split('\n')
        for i in range(1, len(lines)):
            if lines[i].startswith('+') and not lines[i].startswith('+++') and lines[i - 1].startswith(' '):
                j = i
                while j < len(lines) and lines[j].startswith('+'):
                    j += 1
                if j < len(lines) and lines[j].startswith(' '):
                    out.append((lines[i - 1][1:], [l[1:] for l in lines[i:j]], lines[j][1:]))
    return out


def rewrite(text, pairs):
    lines = text.split('\n')
    changed = 0
    for before, ins, after in INSERTIONS:
        k = 0
        while k + 1 < len(lines):
            if lines[k][:1] == ' ' and lines[k + 1][:1] in (' ', '-') and lines[k][1:] == before and lines[k + 1][1:] == after:
                lines[k + 1:k + 1] = [' ' + x for x in ins]
                changed += 1
                k += len(ins)
            k += 1
    for olds, news in pairs:
        if len(olds) == len(news):
            for o, n in zip(olds, news):
                for k, l in enumerate(lines):
                    if l[:1] in (' ', '-', '+') and not l.startswith(('---', '+++')) and l[1:] == o:
                        lines[k] = l[0] + n
                        changed += 1
        else:
            # a block replaced by a block of another length: rewrite where the whole old block occurs with one prefix
            for k in range(len(lines) - len(olds) + 1):
                seg = lines[k:k + len(olds)]
                if all(s[:1] == seg[0][:1] and s[:1] in (' ', '-') and s[1:] == o for s, o in zip(seg, olds)):
                    lines[k:k + len(olds)] = [seg[0][0] + n for n in news]
                    changed += 1
                    break
    return '\n'.join(lines), changed


def fix_counts(text):
    """Recompute the line counts of the hunk headers (block rewrites change them)."""
    out = []
    lines = text.split('\n')
    i = 0
    while i < len(lines):
        m = re.match(r'@@ -(\d+)(?:,\d+)? \+(\d+)(?:,\d+)? @@(.*)', lines[i])
        if not m:
            out.append(lines[i])
            i += 1
            continue
        j = i + 1
        a = b = 0
        while j < len(lines) and not lines[j].startswith(('@@', 'diff --git')):
            if lines[j].startswith(' ') or lines[j] == '':
                if lines[j] == '' and (j + 1 >= len(lines) or lines[j + 1].startswith(('diff --git',))):
                    break
                a += 1
                b += 1
            elif lines[j].startswith('-'):
                a += 1
            elif lines[j].startswith('+'):
                b += 1
            j += 1
        out.append('@@ -%s,%d +%s,%d @@%s' % (m.group(1), a, m.group(2), b, m.group(3)))
        out.extend(lines[i + 1:j])
        i = j
    return '\n'.join(out)


def applies(text):
    def read(rel):
        return open(os.path.join('/repo', rel), encoding='utf-8').read()
    try:
        ov = udiff.apply(text, read)
        for rel, s in ov.items():
            compile(s, rel, 'exec')
        return True, ''
    except Exception as e:
        return False, str(e)[:120]


def main():
    first = int(sys.argv[1])
    pairs = pairs_from(first)
    global INSERTIONS
    INSERTIONS = insertions_from(first)
    for p in sys.argv[2:]:
        text = open(p).read()
        ok, why = applies(text)
        if ok:
            print(p, ': applies already')
            continue
        new, n = rewrite(text, pairs)
        new = fix_counts(new)
        ok, why = applies(new)
        if ok:
            open(p, 'w').write(new)
            print(p, ': re-based (%d line(s) rewritten)' % n)
        else:
            print(p, ': STILL STALE after %d rewrite(s): %s' % (n, why))


if __name__ == '__main__':
    main()

#!/venv/bin/python
"""For a patch (behaviour-preserving change) show, per changed function, the residual difference between the normal form of the
reference spelling and the normal form of the changed function: what the normaliser does not yet undo.

usage: nf_diff.py <patch.diff> [max lines per function]
"""
import ast
import difflib
import os
import sys

HERE = os.path.dirname(os.path.dirname(os.path.abspath(__file__)))
sys.path.insert(0, HERE)
from pydlsa import udiff, roles, normal                     # noqa: E402
from pydlsa.loader import Repo, Module                      # noqa: E402
from pydlsa.astutil import try_fold                         # noqa: E402

ROOT = os.environ.get('PYDLSA_REPO', '/repo')


def main():
    patch = sys.argv[1]
    limit = int(sys.argv[2]) if len(sys.argv) > 2 else 60

    def read(rel):
        return open(os.path.join(ROOT, rel), encoding='utf-8').read()
    overlay = udiff.apply(open(patch).read(), read)
    repo = Repo(ROOT, overlay)
    ref = roles.reference()
    for rel, text in overlay.items():
        mm = Module(rel, text)              # raw, un-substituted functions
        for q, cf in sorted(mm.funcs.items()):
            key = '%s:%s' % (rel, q)
            if key + '#src' not in ref or '<locals>' in q:
                if '<locals>' not in q:
                    print('== %s: new function' % key)
                continue
            import hashlib
            if ref.get(key + '#digest') == hashlib.sha256(ast.dump(cf.node, include_attributes=False).encode()).hexdigest()[:16]:
                continue
            f = repo.modules[rel].funcs[q]
            state = 'SUBSTITUTED' if f.roles.get('respelling_of_reference') else 'differs'
            print('== %s: %s %s' % (key, state, {k: v for k, v in f.roles.items() if k not in ('recovered',)}))
            if state == 'SUBSTITUTED':
                continue
            rnode = roles.reference_node(ref[key + '#src'])
            info = roles.callee_info(repo, f)
            consts = roles.module_consts(repo, f) if hasattr(roles, 'module_consts') else {}
            cur = roles.inlined_current(repo, f, cf.node) if hasattr(roles, 'inlined_current') else cf.node
            a = ast.unparse(normal.normal_form(rnode, info, consts)).split('\n')
            b = ast.unparse(normal.normal_form(cur, info, consts)).split('\n')
            n = 0
            for l in difflib.unified_diff(a, b, 'reference', 'changed', lineterm='', n=1):
                print('   ' + l)
                n += 1
                if n > limit:
                    print('   ...')
                    break


if __name__ == '__main__':
    main()

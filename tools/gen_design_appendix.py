#!/venv/bin/python
"""Rewrite the generated regions of DESIGN.md (between <!-- BEGIN:x --> and <!-- END:x --> markers):
   RULES  -- as-built rule inventory from the META blocks of pydlsa/rules/cNN.py
   SEEDS  -- seeded changes and which rule reports them, from seeded/*/meta.json
   FIXED  -- the fixed findings from known_findings.json
"""
import glob
import importlib
import json
import os
import re
import sys

HERE = os.path.dirname(os.path.dirname(os.path.abspath(__file__)))
sys.path.insert(0, HERE)


def rules_block():
    out = []
    for i in range(1, 21):
        p = 'C%02d' % i
        try:
            mod = importlib.import_module('pydlsa.rules.' + p.lower())
        except ModuleNotFoundError:
            continue
        m = mod.META
        out.append('#### %s -- %s\n' % (p, m['title']))
        out.append('*Deciding method:* %s.\n' % m['technique'])
        expl = m['explanation']
        out.append(expl + '\n')
        out.append('*Instance floors (fewer instances on a violation-free tree = exit 2):* ' +
                   ', '.join('%s >= %d' % (k.split('.', 1)[1], v) for k, v in sorted(m['floors'].items())) + '.\n')
    return '\n'.join(out)


def seeds_block():
    rows = []
    for d in sorted(glob.glob(os.path.join(HERE, 'seeded', '*'))):
        mp = os.path.join(d, 'meta.json')
        if not os.path.exists(mp):
            continue
        m = json.load(open(mp))
        what = m.get('needs_to_manifest', '')
        what = re.sub(r'^#+\s*', '', what)
        what = re.sub(r'\s+', ' ', what)[:150]
        verdict = 'obsolete' if m.get('obsolete') else {0: 'missed (exit 0)', 1: 'reported', 2: 'no verdict (exit 2)'}.get(m.get('check_exit'), '?')
        rows.append('| %s | %s | %s | %s |' % (m['id'], verdict, ', '.join(r.split('.', 1)[1] for r in m.get('rules_fired', [])) or '-', what.replace('|', '/')))
    head = '| seeded change | quick check | rule(s) | what was changed (from the author\'s notes) |\n|---|---|---|---|\n'
    tot = len(rows)
    rep = sum(1 for r in rows if '| reported |' in r)
    nov = sum(1 for r in rows if 'no verdict' in r)
    obs = sum(1 for r in rows if '| obsolete |' in r)
    return head + '\n'.join(rows) + '\n\n%d seeded changes recorded: %d reported, %d no verdict, %d missed, %d obsolete (made harmless by a later fix).\n' % (tot, rep, nov, tot - rep - nov - obs, obs)


def fixed_block():
    k = json.load(open(os.path.join(HERE, 'known_findings.json')))
    rows = ['| # | property / rule | commit | construct | what failed | witness |', '|---|---|---|---|---|---|']
    for i, f in enumerate(k['findings'], 1):
        rows.append('| %d | %s | `%s` | %s `%s` | %s | %s |' % (i, f['rule'], f.get('commit', '-'), f['function'], f['construct'].replace('|', '/')[:60],
                                                                 f['what'].replace('|', '/'), f.get('witness', '').replace('|', '/')))
    return '\n'.join(rows) + '\n'


def main():
    path = os.path.join(HERE, 'DESIGN.md')
    s = open(path).read()
    for tag, fn in (('RULES', rules_block), ('SEEDS', seeds_block), ('FIXED', fixed_block)):
        b, e = '<!-- BEGIN:%s -->' % tag, '<!-- END:%s -->' % tag
        if b in s and e in s:
            s = s[:s.index(b) + len(b)] + '\n' + fn() + s[s.index(e):]
    open(path, 'w').write(s)
    print('DESIGN.md regions regenerated')


if __name__ == '__main__':
    main()
